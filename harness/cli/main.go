//go:build verif

// Harness "cli" (C09, C10): enumerated runs of the taskctl binary built from the working tree with a
// scrubbed, controlled parent environment; oracle: "last defined level wins" folds.
package main

import (
	"fmt"
	"os"
	"os/exec"
	"path/filepath"
	"strings"
	"time"

	"github.com/taskctl/taskctl/internal/vh/common"
)

type Case struct {
	Kind   string   `json:"kind"`             // env, dir, vars, args, undef
	Levels []int    `json:"levels,omitempty"` // defined levels (1-based)
	Desc   bool     `json:"desc,omitempty"`   // values descend along precedence
	Order  []int    `json:"order,omitempty"`  // explicit value ranks per level (thorough)
	Stage  bool     `json:"stage,omitempty"`  // run as a pipeline stage
	Nested bool     `json:"nested,omitempty"` // the pipeline is itself a stage of an outer pipeline
	Vals   int      `json:"vals,omitempty"`   // value shape: 0 plain, 1 the winning level's value is empty, 2 values contain '=' and a space, 3 every lower level's value is empty
	Name2  string   `json:"name2,omitempty"`  // name of the second variable (default W)
	Allow  bool     `json:"allow,omitempty"`  // undef: the task has allow_failure: true (tolerates failing COMMANDS; an undefined variable is not a failing command)
	Prior  bool     `json:"prior,omitempty"`  // another target that defines the same name at every level it can runs first in the same invocation
	Sibs   []string `json:"sibs,omitempty"`   // further names only the parent process defines (neighbours of X in a sorted environment)
	SubDir bool     `json:"subdir,omitempty"` // invoked from a sub-directory
	Args   []string `json:"args,omitempty"`
	Via    string   `json:"via,omitempty"`
	K, P   int      `json:",omitempty"`
	Second []int    `json:"second,omitempty"` // levels defining a second variable Y
}

func (c Case) String() string {
	return fmt.Sprintf("%s levels=%v desc=%v order=%v stage=%v nested=%v vals=%d name2=%q sibs=%v prior=%v allow=%v subdir=%v args=%q via=%q k=%d p=%d second=%v", c.Kind, c.Levels, c.Desc, c.Order, c.Stage, c.Nested, c.Vals, c.Name2, c.Sibs, c.Prior, c.Allow, c.SubDir, c.Args, c.Via, c.K, c.P, c.Second)
}

func has(l []int, x int) bool {
	for _, y := range l {
		if y == x {
			return true
		}
	}
	return false
}

func maxOf(l []int) int {
	m := 0
	for _, x := range l {
		if x > m {
			m = x
		}
	}
	return m
}

// value of level l: chosen so that along precedence values sort ascending or descending.
func (c Case) val(l int, name string) string {
	rank := l
	if c.Order != nil {
		rank = c.Order[l-1]
	} else if c.Desc {
		rank = 9 - l
	}
	base := fmt.Sprintf("%c%s%d", 'a'+rune(rank), name, l)
	top := maxOf(c.Levels)
	if name == "y" {
		top = maxOf(c.Second)
	}
	switch c.Vals {
	case 1:
		if l == top {
			return ""
		}
	case 2:
		return base[:1] + "=" + base[1:] + " z"
	case 3:
		if l != top {
			return ""
		}
	}
	return base
}

func (c Case) n2() string {
	if c.Name2 != "" {
		return c.Name2
	}
	return "W"
}

type runResult struct {
	out  string
	code int
	dir  string
}

func runTaskctl(dir, cwd string, env []string, args ...string) (runResult, error) {
	cmd := exec.Command(os.Getenv("VERIF_TASKCTL"), args...)
	cmd.Dir = cwd
	cmd.Env = append([]string{"HOME=" + filepath.Join(dir, "home"), "PATH=/usr/bin:/bin", "TMPDIR=" + filepath.Join(dir, "tmp")}, env...)
	out, err, hung := common.RunWithTimeout(cmd, 90*time.Second)
	if hung {
		return runResult{out: string(out), dir: dir}, fmt.Errorf("HANG: taskctl %v did not exit within 90 s: %s", args, common.HangSummary(string(out)))
	}
	r := runResult{out: string(out), dir: dir}
	if err != nil {
		ee, ok := err.(*exec.ExitError)
		if !ok {
			return r, err
		}
		r.code = ee.ExitCode()
	}
	return r, nil
}

// nest wraps pipeline p1 into an outer pipeline when the case asks for it.
func nest(c Case, y *strings.Builder, target string) string {
	if c.Stage && c.Nested {
		y.WriteString("  outer:\n    - pipeline: p1\n      name: wrap\n      env:\n        X: outer-stage-env\n      variables:\n        v: outer-stage-var\n")
		return "outer"
	}
	return target
}

func lineWith(out, prefix string) string {
	for _, l := range strings.Split(out, "\n") {
		l = strings.TrimRight(l, "\r")
		if i := strings.Index(l, prefix); i >= 0 {
			return l[i:]
		}
	}
	return ""
}

func mkdirs(ds ...string) {
	for _, d := range ds {
		os.MkdirAll(d, 0o755)
	}
}

// ---- C09 env ----

func envCase(c Case, dir string) string {
	var y strings.Builder
	vars := func(levels []int, l int, indent string, names ...string) string {
		s := ""
		if has(c.Levels, l) {
			s += fmt.Sprintf("%sX: %q\n", indent, c.val(l, "x"))
		}
		if has(c.Second, l) {
			s += fmt.Sprintf("%s%s: %q\n", indent, c.n2(), c.val(l, "y"))
		}
		return s
	}
	env := []string{"PASS=through"}
	if has(c.Levels, 1) {
		env = append(env, "X="+c.val(1, "x"))
	}
	if has(c.Second, 1) {
		env = append(env, c.n2()+"="+c.val(1, "y"))
	}
	sibObs, sibWant := "", ""
	for _, sb := range c.Sibs {
		env = append(env, sb+"=sib-"+sb)
		sibObs += " " + sb + "=$" + sb
		sibWant += " " + sb + "=sib-" + sb
	}
	if has(c.Levels, 2) || has(c.Second, 2) {
		y.WriteString("contexts:\n  c1:\n    env:\n" + vars(c.Levels, 2, "      "))
	}
	obs := func(tag string) string {
		return fmt.Sprintf("'echo \"%s X=${X-unset} Y=${%s-unset} P=$PASS TN=$TASK_NAME%s\"'", tag, c.n2(), sibObs)
	}
	y.WriteString("tasks:\n  t1:\n    before: " + obs("HOOKB") + "\n    command:\n      - " + obs("OBS") + "\n      - " + obs("SECOND") + "\n    after: " + obs("HOOKA") + "\n")
	if has(c.Levels, 2) || has(c.Second, 2) {
		y.WriteString("    context: c1\n")
	}
	if has(c.Levels, 3) || has(c.Second, 3) {
		f := ""
		if has(c.Levels, 3) {
			f += "X=" + c.val(3, "x") + "\n"
		}
		if has(c.Second, 3) {
			f += c.n2() + "=" + c.val(3, "y") + "\n"
		}
		os.WriteFile(filepath.Join(dir, "t1.env"), []byte(f), 0o644)
		y.WriteString("    env_file: t1.env\n")
	}
	if has(c.Levels, 4) || has(c.Second, 4) {
		y.WriteString("    env:\n" + vars(c.Levels, 4, "      "))
	}
	if has(c.Levels, 6) || has(c.Second, 6) {
		y.WriteString("    variations:\n      - ")
		first := true
		if has(c.Levels, 6) {
			y.WriteString(fmt.Sprintf("X: %q\n", c.val(6, "x")))
			first = false
		}
		if has(c.Second, 6) {
			if !first {
				y.WriteString("        ")
			}
			y.WriteString(fmt.Sprintf("%s: %q\n", c.n2(), c.val(6, "y")))
		}
	}
	target := "t1"
	if c.Stage {
		target = "p1"
		y.WriteString("pipelines:\n  p1:\n    - task: t1\n")
		if has(c.Levels, 5) || has(c.Second, 5) {
			y.WriteString("      env:\n" + vars(c.Levels, 5, "        "))
		}
	}
	target = nest(c, &y, target)
	targets := []string{target}
	if c.Prior {
		// an earlier target of the same invocation defines X (and the second name) at every level a target can:
		// nothing of it may be left behind for the target under observation
		os.WriteFile(filepath.Join(dir, "t0.env"), []byte("X=prior-file\n"+c.n2()+"=prior-file\n"), 0o644)
		doc := y.String()
		ctx0 := "  c0:\n    env:\n      X: prior-ctx\n      " + c.n2() + ": prior-ctx\n"
		if strings.HasPrefix(doc, "contexts:\n") {
			doc = "contexts:\n" + ctx0 + strings.TrimPrefix(doc, "contexts:\n")
		} else {
			doc = "contexts:\n" + ctx0 + doc
		}
		t0 := "tasks:\n  t0:\n    context: c0\n    env_file: t0.env\n    env:\n      X: prior-task\n      " + c.n2() + ": prior-task\n    variations:\n      - X: prior-var\n    command: 'echo \"PRIOR X=$X\"'\n"
		doc = strings.Replace(doc, "tasks:\n", t0, 1)
		prior := "t0"
		if c.Stage {
			prior = "p0"
			p0 := "pipelines:\n  p0:\n    - task: t0\n      env:\n        X: prior-stage\n        " + c.n2() + ": prior-stage\n"
			doc = strings.Replace(doc, "pipelines:\n", p0, 1)
		}
		y.Reset()
		y.WriteString(doc)
		targets = []string{prior, target}
	}
	os.WriteFile(filepath.Join(dir, "tasks.yaml"), []byte(y.String()), 0o644)
	r, err := runTaskctl(dir, dir, env, append([]string{"--output", "raw"}, targets...)...)
	if err != nil {
		return "infra: " + err.Error()
	}
	wantX := c.val(maxOf(c.Levels), "x")
	wantY := "unset"
	if len(c.Second) > 0 {
		wantY = c.val(maxOf(c.Second), "y")
	}
	want := fmt.Sprintf("OBS X=%s Y=%s P=through TN=t1%s", wantX, wantY, sibWant)
	got := lineWith(r.out, "OBS ")
	if r.code != 0 {
		return fmt.Sprintf("exit status %d: %s", r.code, strings.TrimSpace(r.out))
	}
	if got != want {
		return fmt.Sprintf("command saw %q, precedence model %q", got, want)
	}
	if w := "SECOND" + strings.TrimPrefix(want, "OBS"); lineWith(r.out, "SECOND ") != w {
		return fmt.Sprintf("second command saw %q, precedence model %q", lineWith(r.out, "SECOND "), w)
	}
	// a variation belongs to one command instance; the hooks are judged only when no variation is involved
	if !has(c.Levels, 6) && !has(c.Second, 6) {
		for _, h := range []string{"HOOKB", "HOOKA"} {
			if w := h + strings.TrimPrefix(want, "OBS"); lineWith(r.out, h+" ") != w {
				return fmt.Sprintf("hook saw %q, precedence model %q", lineWith(r.out, h+" "), w)
			}
		}
	}
	return ""
}

// env2Case: two variations; the first defines X (level 6), the second does not. In the second
// variation X must come from the highest remaining level (or be unset): a variation must not
// leak into the next one.
func env2Case(c Case, dir string) string {
	var y strings.Builder
	env := []string{"PASS=through"}
	if has(c.Levels, 1) {
		env = append(env, "X="+c.val(1, "x"))
	}
	if has(c.Levels, 2) {
		y.WriteString("contexts:\n  c1:\n    env:\n      X: " + c.val(2, "x") + "\n")
	}
	y.WriteString("tasks:\n  t1:\n    command: 'echo \"OBS X=$X Z=$Z\"'\n")
	if has(c.Levels, 2) {
		y.WriteString("    context: c1\n")
	}
	if has(c.Levels, 4) {
		y.WriteString("    env:\n      X: " + c.val(4, "x") + "\n")
	}
	y.WriteString("    variations:\n      - X: " + c.val(6, "x") + "\n      - Z: zz\n      - X: " + c.val(6, "w") + "\n")
	target := "t1"
	if c.Stage {
		target = "p1"
		y.WriteString("pipelines:\n  p1:\n    - task: t1\n")
		if has(c.Levels, 5) {
			y.WriteString("      env:\n        X: " + c.val(5, "x") + "\n")
		}
	}
	os.WriteFile(filepath.Join(dir, "tasks.yaml"), []byte(y.String()), 0o644)
	r, err := runTaskctl(dir, dir, env, "--output", "raw", target)
	if err != nil {
		return "infra: " + err.Error()
	}
	if r.code != 0 {
		return fmt.Sprintf("exit status %d: %s", r.code, firstLines(r.out))
	}
	below := ""
	if m := maxOf(c.Levels); m > 0 {
		below = c.val(m, "x")
	}
	want := []string{"OBS X=" + c.val(6, "x") + " Z=", "OBS X=" + below + " Z=zz", "OBS X=" + c.val(6, "w") + " Z="}
	var got []string
	for _, l := range strings.Split(r.out, "\n") {
		l = strings.TrimRight(l, "\r")
		if i := strings.Index(l, "OBS "); i >= 0 {
			got = append(got, l[i:])
		}
	}
	if strings.Join(got, "|") != strings.Join(want, "|") {
		return fmt.Sprintf("the three variations saw %q, precedence model %q", got, want)
	}
	return ""
}

// ---- C09 dir ----

func dirCase(c Case, dir string) string {
	// levels: 1 context dir, 2 task dir (templated with .Root), 3 stage dir
	dC, dT, dS := filepath.Join(dir, "dC"), filepath.Join(dir, "dT"), filepath.Join(dir, "dS")
	sub := filepath.Join(dir, "sub")
	mkdirs(dC, dT, dS, sub)
	var y strings.Builder
	if has(c.Levels, 1) {
		y.WriteString("contexts:\n  c1:\n    dir: " + dC + "\n")
	}
	y.WriteString("tasks:\n  t1:\n    before: 'echo \"BEFORE $(pwd)\"'\n    command: 'echo \"CMD $(pwd)\"'\n    after: 'echo \"AFTER $(pwd)\"'\n")
	if has(c.Levels, 1) {
		y.WriteString("    context: c1\n")
	}
	if has(c.Levels, 2) {
		y.WriteString("    dir: \"{{.Root}}/dT\"\n")
	}
	target := "t1"
	if c.Stage {
		target = "p1"
		y.WriteString("pipelines:\n  p1:\n    - task: t1\n")
		if has(c.Levels, 3) {
			y.WriteString("      dir: " + dS + "\n")
		}
	}
	target = nest(c, &y, target)
	os.WriteFile(filepath.Join(dir, "tasks.yaml"), []byte(y.String()), 0o644)
	cwd := dir
	if c.SubDir {
		cwd = sub
	}
	r, err := runTaskctl(dir, cwd, nil, "--output", "raw", target)
	if err != nil {
		return "infra: " + err.Error()
	}
	want := cwd
	switch {
	case c.Stage && has(c.Levels, 3):
		want = dS
	case has(c.Levels, 2):
		want = dT
	case has(c.Levels, 1):
		want = dC
	}
	if r.code != 0 {
		return fmt.Sprintf("exit status %d: %s", r.code, strings.TrimSpace(r.out))
	}
	for _, tag := range []string{"BEFORE", "CMD", "AFTER"} {
		got := strings.TrimPrefix(lineWith(r.out, tag+" "), tag+" ")
		if got != want {
			return fmt.Sprintf("%s ran in %q, model %q (relative to %s)", tag, strings.TrimPrefix(got, dir), strings.TrimPrefix(want, dir), dir)
		}
	}
	return ""
}

// ---- C10 variables ----

func varsCase(c Case, dir string) string {
	// levels: 1 configuration variables, 2 --set, 3 task variables, 4 stage variables
	var y strings.Builder
	if has(c.Levels, 1) {
		y.WriteString(fmt.Sprintf("variables:\n  v: %q\n", c.val(1, "v")))
	}
	y.WriteString("tasks:\n  t1:\n    before: 'echo \"HOOKB v={{.v}} root={{.Root}}\"'\n    command:\n      - 'echo \"OBS v={{.v}} root={{.Root}} tmp={{.TempDir}} args=[{{.Args}}] n={{len .ArgsList}}\"'\n      - 'echo \"SECOND v={{.v}}\"'\n    after: 'echo \"HOOKA v={{.v}} root={{.Root}}\"'\n")
	if has(c.Levels, 3) {
		y.WriteString(fmt.Sprintf("    variables:\n      v: %q\n", c.val(3, "v")))
	}
	target := "t1"
	if c.Stage {
		target = "p1"
		y.WriteString("pipelines:\n  p1:\n    - task: t1\n")
		if has(c.Levels, 4) {
			y.WriteString(fmt.Sprintf("      variables:\n        v: %q\n", c.val(4, "v")))
		}
	}
	target = nest(c, &y, target)
	prior := ""
	if c.Prior {
		// an earlier target of the same invocation sets v at the task (and stage) level: it must not reach the observed target
		doc := strings.Replace(y.String(), "tasks:\n", "tasks:\n  t0:\n    variables:\n      v: prior-task\n    command: 'echo \"PRIOR v={{.v}}\"'\n", 1)
		prior = "t0"
		if c.Stage {
			prior = "p0"
			doc = strings.Replace(doc, "pipelines:\n", "pipelines:\n  p0:\n    - task: t0\n      variables:\n        v: prior-stage\n", 1)
		}
		y.Reset()
		y.WriteString(doc)
	}
	os.WriteFile(filepath.Join(dir, "tasks.yaml"), []byte(y.String()), 0o644)
	args := []string{"--output", "raw"}
	if has(c.Levels, 2) {
		args = append(args, "--set", "v="+c.val(2, "v"))
	}
	if prior != "" {
		args = append(args, prior)
	}
	args = append(args, target)
	r, err := runTaskctl(dir, dir, nil, args...)
	if err != nil {
		return "infra: " + err.Error()
	}
	tmp := filepath.Join(dir, "tmp")
	want := fmt.Sprintf("OBS v=%s root=%s tmp=%s args=[] n=0", c.val(maxOf(c.Levels), "v"), dir, tmp)
	got := lineWith(r.out, "OBS ")
	if r.code != 0 {
		return fmt.Sprintf("exit status %d: %s", r.code, firstLines(r.out))
	}
	if got != want {
		return fmt.Sprintf("command saw %q, precedence model %q", got, want)
	}
	wv := c.val(maxOf(c.Levels), "v")
	for _, w := range []string{"HOOKB v=" + wv + " root=" + dir, "SECOND v=" + wv, "HOOKA v=" + wv + " root=" + dir} {
		pre := w[:strings.Index(w, " ")+1]
		if g := lineWith(r.out, pre); g != w {
			return fmt.Sprintf("hook or later command saw %q, precedence model %q", g, w)
		}
	}
	return ""
}

func firstLines(s string) string {
	s = strings.TrimSpace(s)
	if len(s) > 400 {
		s = s[:400]
	}
	return s
}

// ---- C10 arguments ----

func argsCase(c Case, dir string) string {
	trace := filepath.Join(dir, "trace")
	y := fmt.Sprintf(`tasks:
  t1:
    command:
      - 'echo t1 >> %[1]s'
      - 'echo "OBS args=[{{.Args}}] env=[$ARGS] n={{len .ArgsList}}{{range .ArgsList}} <{{.}}>{{end}}"'
  t2:
    command: 'echo t2 >> %[1]s'
pipelines:
  p1:
    - task: t2
`, trace)
	os.WriteFile(filepath.Join(dir, "tasks.yaml"), []byte(y), 0o644)
	args := []string{"--output", "raw"}
	if c.Via == "run" {
		args = append(args, "run")
	}
	args = append(args, "t1", "--")
	args = append(args, c.Args...)
	r, err := runTaskctl(dir, dir, nil, args...)
	if err != nil {
		return "infra: " + err.Error()
	}
	joined := strings.Join(c.Args, " ")
	want := fmt.Sprintf("OBS args=[%s] env=[%s] n=%d", joined, joined, len(c.Args))
	for _, a := range c.Args {
		want += " <" + a + ">"
	}
	got := lineWith(r.out, "OBS ")
	b, _ := os.ReadFile(trace)
	if tr := strings.Join(strings.Fields(string(b)), " "); tr != "t1" {
		return fmt.Sprintf("targets actually run: %q (expected only t1); output %s", tr, firstLines(r.out))
	}
	if r.code != 0 {
		return fmt.Sprintf("exit status %d: %s", r.code, firstLines(r.out))
	}
	if got != want {
		return fmt.Sprintf("command saw %q, expected %q", got, want)
	}
	return ""
}

// ---- C10 undefined variable ----

func undefCase(c Case, dir string) string {
	trace := filepath.Join(dir, "trace")
	var y strings.Builder
	y.WriteString("tasks:\n  t1:\n")
	if c.Allow {
		y.WriteString("    allow_failure: true\n")
	}
	y.WriteString("    command:\n")
	for i := 1; i <= c.K; i++ {
		if i == c.P {
			form := map[string]string{"": "{{.nope}}", "if": "{{if .nope}}x{{end}}", "ifeq": "{{if eq .nope \"a\"}}x{{end}}", "with": "{{with .nope}}x{{end}}",
				"range": "{{range .nope}}x{{end}}", "default": "{{.nope | default \"d\"}}", "nested": "{{.Args}}{{.nope.deeper}}", "printf": "{{printf \"%v\" .nope}}"}[c.Via]
			fmt.Fprintf(&y, "      - 'echo c%d%s >> %s'\n", i, form, trace)
		} else {
			fmt.Fprintf(&y, "      - 'echo c%d >> %s'\n", i, trace)
		}
	}
	target := "t1"
	if c.Stage {
		target = "p1"
		y.WriteString("pipelines:\n  p1:\n    - task: t1\n")
	}
	os.WriteFile(filepath.Join(dir, "tasks.yaml"), []byte(y.String()), 0o644)
	r, err := runTaskctl(dir, dir, nil, "--output", "raw", target)
	if err != nil {
		return "infra: " + err.Error()
	}
	var want []string
	for i := 1; i < c.P; i++ {
		want = append(want, fmt.Sprintf("c%d", i))
	}
	b, _ := os.ReadFile(trace)
	if got := strings.Join(strings.Fields(string(b)), " "); got != strings.Join(want, " ") {
		return fmt.Sprintf("commands that ran: %q, expected %q", got, strings.Join(want, " "))
	}
	if r.code == 0 {
		return "exit status 0 although a command refers to an undefined variable"
	}
	if strings.Contains(r.out, "panic:") {
		return "crash: " + firstLines(r.out)
	}
	return ""
}

// ---- C14 (CLI clauses): down runs exactly once, last, whether the target succeeded or failed ----

func hooksCase(c Case, dir string) string {
	trace := filepath.Join(dir, "trace")
	y := fmt.Sprintf(`contexts:
  cx:
    up: "echo up >> %[1]s"
    down: "echo down >> %[1]s"
    before: "echo cb >> %[1]s"
    after: "echo ca >> %[1]s"
  unused:
    up: "echo up-unused >> %[1]s"
    down: "echo down-unused >> %[1]s"
tasks:
  ok:
    context: cx
    command: "echo ok >> %[1]s"
  ok2:
    context: cx
    command: "echo ok2 >> %[1]s"
  bad:
    context: cx
    command: "echo bad >> %[1]s; exit 1"
  plain:
    command: "echo plain >> %[1]s"
pipelines:
  pok:
    - task: ok
    - task: ok2
      depends_on: [ok]
  pbad:
    - task: ok
    - task: bad
      depends_on: [ok]
`, trace)
	os.WriteFile(filepath.Join(dir, "tasks.yaml"), []byte(y), 0o644)
	args := []string{"--output", "raw"}
	if c.Via == "run" {
		args = append(args, "run")
	}
	args = append(args, c.Args...)
	r, err := runTaskctl(dir, dir, nil, args...)
	if err != nil {
		return "infra: " + err.Error()
	}
	if strings.Contains(r.out, "panic:") {
		return "crash: " + firstLines(r.out)
	}
	b, _ := os.ReadFile(trace)
	got := strings.Fields(string(b))
	usesCx := false
	for _, a := range c.Args {
		if a != "plain" {
			usesCx = true
		}
	}
	nDown, nUp := 0, 0
	for _, g := range got {
		if g == "down" {
			nDown++
		}
		if g == "up" {
			nUp++
		}
		if strings.HasSuffix(g, "-unused") {
			return fmt.Sprintf("hooks of the unused context ran: %v", got)
		}
	}
	if !usesCx {
		if nDown+nUp != 0 {
			return fmt.Sprintf("context hooks ran although no target uses the context: %v", got)
		}
		return ""
	}
	// up exactly once and before every other event of the context (events of context-less tasks do not count)
	firstCx := -1
	for i, g := range got {
		if g != "plain" && firstCx < 0 {
			firstCx = i
		}
	}
	if nUp != 1 || got[firstCx] != "up" {
		return fmt.Sprintf("KIND:cli-up:up must run exactly once and before every event of its context: %v", got)
	}
	if nDown != 1 {
		return fmt.Sprintf("KIND:cli-down-count:down ran %d times (exit status %d): %v", nDown, r.code, got)
	}
	if got[len(got)-1] != "down" {
		return fmt.Sprintf("KIND:cli-down-before-later-target:down ran before the events of a later target: %v", got)
	}
	return ""
}

// ---- C19 (formats): the output format is presentation only and never crashes ----

func formatsCase(c Case, dir string) string {
	// c.Via = outcome, c.Stage = as 2-stage pipeline
	trace := filepath.Join(dir, "trace")
	task := map[string]string{
		"success":     "    command: ['echo one >> %[1]s', 'echo out']\n",
		"fail":        "    command: ['echo one >> %[1]s', 'echo out; exit 3']\n",
		"skipped":     "    condition: 'exit 1'\n    command: 'echo one >> %[1]s'\n",
		"before-fail": "    before: 'exit 2'\n    command: 'echo one >> %[1]s'\n",
		"up-fail":     "    context: broken\n    command: 'echo one >> %[1]s'\n",
		"allowed":     "    allow_failure: true\n    command: ['echo one >> %[1]s; exit 4', 'echo two >> %[1]s']\n",
	}[c.Via]
	y := "contexts:\n  broken:\n    up: 'exit 1'\ntasks:\n  first:\n    command: 'echo first >> %[1]s'\n  t1:\n" + task
	y += "pipelines:\n  p1:\n    - task: first\n    - task: t1\n      depends_on: [first]\n"
	os.WriteFile(filepath.Join(dir, "tasks.yaml"), []byte(fmt.Sprintf(y, trace)), 0o644)
	target := "t1"
	if c.Stage {
		target = "p1"
	}
	type obs struct {
		code  int
		trace string
	}
	var results []obs
	for _, format := range []string{"raw", "prefixed", "cockpit"} {
		os.Remove(trace)
		done := make(chan runResult, 1)
		go func() {
			r, err := runTaskctl(dir, dir, nil, "--output", format, target)
			if err != nil {
				r.code = -99
				r.out = err.Error()
			}
			done <- r
		}()
		var r runResult
		select {
		case r = <-done:
		case <-time.After(60 * time.Second):
			return fmt.Sprintf("KIND:format-hang-%s:taskctl --output %s %s did not finish within 60s", format, format, target)
		}
		if strings.Contains(r.out, "panic:") || strings.Contains(r.out, "fatal error:") || strings.Contains(r.out, "goroutine ") || r.code < 0 || r.code > 1 {
			return fmt.Sprintf("KIND:format-crash-%s:taskctl --output %s %s crashed (status %d): %s", format, format, target, r.code, firstLines(r.out))
		}
		b, _ := os.ReadFile(trace)
		results = append(results, obs{r.code, strings.Join(strings.Fields(string(b)), " ")})
	}
	for i := 1; i < len(results); i++ {
		if results[i] != results[0] {
			return fmt.Sprintf("KIND:format-changes-result:result under raw %+v, under %s %+v", results[0], []string{"raw", "prefixed", "cockpit"}[i], results[i])
		}
	}
	// and the result itself: exit status 0 iff the outcome is not a failure
	wantFail := c.Via == "fail" || c.Via == "before-fail" || c.Via == "up-fail"
	if (results[0].code != 0) != wantFail {
		return fmt.Sprintf("KIND:format-wrong-status:outcome %s gave exit status %d", c.Via, results[0].code)
	}
	return ""
}

// ---- C20 (conformance of the event model): the real `taskctl watch` on the real kernel + fsnotify ----

// watchReal2Case: `taskctl watch <a> <b>` with two watchers over disjoint paths.
func watchReal2Case(c Case, dir string) string {
	logf := filepath.Join(dir, "events.log")
	mkdirs(filepath.Join(dir, "a"), filepath.Join(dir, "b"))
	os.WriteFile(filepath.Join(dir, "a", "one.txt"), []byte("0\n"), 0o644)
	os.WriteFile(filepath.Join(dir, "b", "two.txt"), []byte("0\n"), 0o644)
	y := fmt.Sprintf("tasks:\n  loga:\n    command: 'echo \"EV A $EventName $EventPath\" >> %[1]s'\n  logb:\n    command: 'echo \"EV B $EventName $EventPath\" >> %[1]s'\nwatchers:\n  w1:\n    watch: [\"a/*.txt\"]\n    events: [write]\n    task: loga\n  w2:\n    watch: [\"b/*.txt\"]\n    events: [write]\n    task: logb\n", logf)
	os.WriteFile(filepath.Join(dir, "tasks.yaml"), []byte(y), 0o644)
	cmd := exec.Command(os.Getenv("VERIF_TASKCTL"), append([]string{"watch"}, c.Args...)...)
	cmd.Dir = dir
	cmd.Env = []string{"HOME=" + filepath.Join(dir, "home"), "PATH=/usr/bin:/bin"}
	var out strings.Builder
	cmd.Stdout, cmd.Stderr = &out, &out
	if err := cmd.Start(); err != nil {
		return "infra: " + err.Error()
	}
	defer func() { cmd.Process.Kill(); cmd.Wait() }()
	lines := func() []string {
		b, _ := os.ReadFile(logf)
		var ls []string
		for _, l := range strings.Split(string(b), "\n") {
			if strings.HasPrefix(l, "EV") {
				ls = append(ls, strings.TrimSpace(strings.TrimPrefix(l, "EV")))
			}
		}
		return ls
	}
	// The two tasks append to one file concurrently and the shell writes a line and its terminator in separate
	// calls, so lines of the two watchers may run into each other: markers are looked for in the whole content.
	has := func(marker string, d time.Duration) bool {
		deadline := time.Now().Add(d)
		for time.Now().Before(deadline) {
			if b, _ := os.ReadFile(logf); strings.Contains(string(b), "EV "+marker) {
				return true
			}
			time.Sleep(100 * time.Millisecond)
		}
		return false
	}
	if strings.Contains(out.String(), "too many open files") {
		return "" // inotify instances exhausted by other activity: not judged
	}
	// each watcher runs its task once at start-up (empty event fields)
	if !has("A", 20*time.Second) || !has("B", 20*time.Second) {
		if strings.Contains(out.String(), "too many open files") {
			return ""
		}
		return fmt.Sprintf("KIND:watch2-no-startup-run:with watchers %v on one command line not every watcher's task ran at start-up: %v; output: %s", c.Args, lines(), firstLines(out.String()))
	}
	time.Sleep(1500 * time.Millisecond)
	os.WriteFile(filepath.Join(dir, "a", "one.txt"), []byte("1\n"), 0o644)
	if !has("A write a/one.txt", 15*time.Second) {
		return fmt.Sprintf("KIND:watch2-event-lost:a write to a/one.txt (observed by w1) did not run w1's task; log %v", lines())
	}
	os.WriteFile(filepath.Join(dir, "b", "two.txt"), []byte("1\n"), 0o644)
	if !has("B write b/two.txt", 15*time.Second) {
		return fmt.Sprintf("KIND:watch2-event-lost:a write to b/two.txt (observed by w2) did not run w2's task; log %v", lines())
	}
	if b, _ := os.ReadFile(logf); strings.Contains(string(b), "EV A write b/") || strings.Contains(string(b), "EV B write a/") {
		return fmt.Sprintf("KIND:watch2-wrong-watcher:an event on a path of one watcher ran the other watcher's task: %v", lines())
	}
	return ""
}

func watchRealCase(c Case, dir string) string {
	logf := filepath.Join(dir, "events.log")
	for _, f := range []string{"watched.txt", "second.txt", "xcluded.txt", "other.md"} {
		os.WriteFile(filepath.Join(dir, f), []byte("0\n"), 0o644)
	}
	events := ""
	if len(c.Args) > 0 {
		events = "    events: [" + strings.Join(c.Args, ", ") + "]\n"
	}
	y := fmt.Sprintf("tasks:\n  log:\n    command: 'echo \"EV $EventName $EventPath\" >> %s'\nwatchers:\n  w1:\n    watch: [\"*.txt\"]\n    exclude: [\"x*\"]\n%s    task: log\n", logf, events)
	os.WriteFile(filepath.Join(dir, "tasks.yaml"), []byte(y), 0o644)
	cmd := exec.Command(os.Getenv("VERIF_TASKCTL"), "watch", "w1")
	cmd.Dir = dir
	cmd.Env = []string{"HOME=" + filepath.Join(dir, "home"), "PATH=/usr/bin:/bin"}
	var out strings.Builder
	cmd.Stdout, cmd.Stderr = &out, &out
	if err := cmd.Start(); err != nil {
		return "infra: " + err.Error()
	}
	defer func() { cmd.Process.Kill(); cmd.Wait() }()
	lines := func() []string {
		b, _ := os.ReadFile(logf)
		var ls []string
		for _, l := range strings.Split(string(b), "\n") {
			if strings.HasPrefix(l, "EV") {
				ls = append(ls, strings.TrimSpace(strings.TrimPrefix(l, "EV")))
			}
		}
		return ls
	}
	waitFor := func(n int, d time.Duration) []string {
		deadline := time.Now().Add(d)
		for time.Now().Before(deadline) {
			if ls := lines(); len(ls) >= n {
				return ls
			}
			time.Sleep(100 * time.Millisecond)
		}
		return lines()
	}
	// start-up run: one line with empty event fields
	if ls := waitFor(1, 20*time.Second); len(ls) < 1 {
		return "KIND:watch-no-startup-run:the watcher's task did not run at start-up within 20 s; output: " + firstLines(out.String())
	}
	time.Sleep(1500 * time.Millisecond) // let the watcher register its paths
	subscribed := func(ev string) bool {
		if len(c.Args) == 0 {
			return true
		}
		for _, a := range c.Args {
			if a == ev {
				return true
			}
		}
		return false
	}
	type step struct {
		name   string
		do     func()
		path   string
		expect []string // event names of which at least one must be reported (if subscribed); empty: nothing may be reported
	}
	steps := []step{
		{"write watched", func() { os.WriteFile(filepath.Join(dir, "watched.txt"), []byte("1\n"), 0o644) }, "watched.txt", []string{"write"}},
		{"write excluded", func() { os.WriteFile(filepath.Join(dir, "xcluded.txt"), []byte("1\n"), 0o644) }, "", nil},
		{"chmod watched", func() { os.Chmod(filepath.Join(dir, "watched.txt"), 0o600) }, "watched.txt", []string{"chmod"}},
	}
	if c.K > 0 { // thorough: more operations, then the destructive ones
		steps = append(steps,
			step{"write unrelated", func() { os.WriteFile(filepath.Join(dir, "other.md"), []byte("1\n"), 0o644) }, "", nil},
			step{"write second", func() { os.WriteFile(filepath.Join(dir, "second.txt"), []byte("2\n"), 0o644) }, "second.txt", []string{"write"}},
			step{"write watched again", func() { os.WriteFile(filepath.Join(dir, "watched.txt"), []byte("3\n"), 0o644) }, "watched.txt", []string{"write"}},
			step{"create unwatched new file", func() { os.WriteFile(filepath.Join(dir, "new.txt"), []byte("n\n"), 0o644) }, "", nil},
			step{"rename second", func() { os.Rename(filepath.Join(dir, "second.txt"), filepath.Join(dir, "moved.txt")) }, "second.txt", []string{"rename"}},
			step{"remove watched", func() { os.Remove(filepath.Join(dir, "watched.txt")) }, "watched.txt", []string{"remove", "chmod"}},
		)
	}
	seen := len(lines())
	for _, st := range steps {
		st.do()
		var want []string
		for _, e := range st.expect {
			if subscribed(e) {
				want = append(want, e)
			}
		}
		if len(want) > 0 {
			ls := waitFor(seen+1, 15*time.Second)
			time.Sleep(2500 * time.Millisecond) // further events of the same operation
			ls = lines()
			newl := ls[seen:]
			seen = len(ls)
			ok := false
			for _, l := range newl {
				f := strings.Fields(l)
				if len(f) != 2 {
					return fmt.Sprintf("KIND:watch-bad-event-line:after %q the task printed %q", st.name, l)
				}
				if f[1] != st.path {
					return fmt.Sprintf("KIND:watch-wrong-path:after %q the task ran for path %q, expected %q", st.name, f[1], st.path)
				}
				if !subscribed(f[0]) {
					return fmt.Sprintf("KIND:watch-unsubscribed-event-ran:after %q the task ran for event %q which is not subscribed (%v)", st.name, f[0], c.Args)
				}
				for _, w := range want {
					if f[0] == w {
						ok = true
					}
				}
			}
			if !ok {
				return fmt.Sprintf("KIND:watch-event-missed:after %q no task run for %v on %s within 15 s (new lines %v); output: %s", st.name, want, st.path, newl, firstLines(out.String()))
			}
		} else {
			time.Sleep(3500 * time.Millisecond)
			ls := lines()
			if len(ls) != seen {
				return fmt.Sprintf("KIND:watch-unobserved-path-ran:after %q (a path that is excluded / not selected, or an unsubscribed event) the task ran: %v", st.name, ls[seen:])
			}
		}
	}
	return ""
}

func runOne(c Case, root string) string {
	dir, err := os.MkdirTemp(root, "case")
	if err != nil {
		return "infra: " + err.Error()
	}
	defer os.RemoveAll(dir)
	dir, _ = filepath.EvalSymlinks(dir)
	mkdirs(filepath.Join(dir, "home"), filepath.Join(dir, "tmp"))
	switch c.Kind {
	case "env":
		return envCase(c, dir)
	case "env2":
		return env2Case(c, dir)
	case "dir":
		return dirCase(c, dir)
	case "vars":
		return varsCase(c, dir)
	case "args":
		return argsCase(c, dir)
	case "undef":
		return undefCase(c, dir)
	case "hooks":
		return hooksCase(c, dir)
	case "formats":
		return formatsCase(c, dir)
	case "watchreal2":
		return watchReal2Case(c, dir)
	case "watchreal":
		return watchRealCase(c, dir)
	}
	return "infra: unknown kind"
}

func subsets(levels []int) [][]int {
	var out [][]int
	for m := 1; m < 1<<uint(len(levels)); m++ {
		var s []int
		for i, l := range levels {
			if m&(1<<uint(i)) != 0 {
				s = append(s, l)
			}
		}
		out = append(out, s)
	}
	return out
}

func main() {
	common.Init()
	res := common.NewResult("cli")
	target := *common.Prop
	root, _ := os.Getwd()
	if *common.Replay != "" {
		var rf struct {
			Case Case `json:"case"`
		}
		common.ReadReplay(&rf)
		d := runOne(rf.Case, root)
		fmt.Printf("case: %s\nresult: %s\n", rf.Case, d)
		if d != "" && (!strings.HasPrefix(d, "infra:") || strings.HasPrefix(d, "infra: HANG:")) {
			fmt.Printf("VIOLATION property=%s replay=%s\n", target, *common.Replay)
			os.Exit(1)
		}
		return
	}
	var idx int64
	distinct := map[string]bool{}
	do := func(c Case) bool {
		idx++
		if !common.Mine(idx) {
			return false
		}
		res.Evaluations++
		distinct[fmt.Sprint(c.Kind, c.Levels, c.Stage, c.Nested, c.Vals, c.Name2, c.Sibs, c.Prior, c.Allow, c.Args, c.K, c.P, c.SubDir, c.Via)] = true
		if res.Evaluations%23 == 1 {
			res.AddSample(c.String())
		}
		d := runOne(c, root)
		if strings.HasPrefix(d, "infra: HANG:") {
			// a hang of the real process: a violation if the same case hangs again, otherwise recorded
			if d2 := runOne(c, root); strings.HasPrefix(d2, "infra: HANG:") {
				d = strings.TrimPrefix(d, "infra: ")
			} else {
				res.Notes = append(res.Notes, "intermittent_hang: "+c.String()+": "+d)
				d = d2
			}
		}
		if strings.HasPrefix(d, "infra:") {
			fmt.Fprintln(os.Stderr, d)
			os.Exit(2)
		}
		if strings.HasPrefix(d, "KIND:") {
			parts := strings.SplitN(d, ":", 3)
			return res.AddViolation(common.Violation{Property: target, Key: fmt.Sprintf("%s:%s|targets=%s|via=%s", target, parts[1], strings.Join(c.Args, ","), c.Via), Desc: c.String() + ": " + parts[2], Config: c},
				map[string]interface{}{"harness": "cli", "mode": "plain", "property": target, "needs_taskctl": true, "case": c})
		}
		if d != "" {
			return res.AddViolation(common.Violation{Property: target, Key: target + ":" + c.Kind + "|" + c.String(), Desc: c.String() + ": " + d, Config: c},
				map[string]interface{}{"harness": "cli", "mode": "plain", "property": target, "needs_taskctl": true, "case": c})
		}
		return false
	}
	thorough := *common.Tier == "thorough"
	switch *common.Unit {
	case "env":
		for _, stage := range []bool{false, true} {
			lv := []int{1, 2, 3, 4, 6}
			if stage {
				lv = []int{1, 2, 3, 4, 5, 6}
			}
			for _, s := range subsets(lv) {
				for _, desc := range []bool{false, true} {
					if do(Case{Kind: "env", Levels: s, Desc: desc, Stage: stage}) {
						goto done
					}
					if stage && do(Case{Kind: "env", Levels: s, Desc: desc, Stage: true, Nested: true}) {
						goto done
					}
				}
				// "regardless of the values involved": empty winning value, values with '=' and spaces, empty lower values
				for vs := 1; vs <= 3; vs++ {
					if do(Case{Kind: "env", Levels: s, Stage: stage, Vals: vs}) {
						goto done
					}
				}
				// an earlier target of the same invocation that defines the name at every level it can
				if do(Case{Kind: "env", Levels: s, Stage: stage, Prior: true}) {
					goto done
				}
				// the shape of the parent environment around X must not matter: names that sort just before and just
				// after "X=" ('0'-'9' sort before '=', letters and '_' after it), alone and together
				if has(s, 1) && len(s) > 1 {
					for _, sibs := range [][]string{{"X2"}, {"X0", "X9"}, {"X_"}, {"XA", "Xa"}, {"W9", "X2", "X_", "Y"}} {
						for _, desc := range []bool{false, true} {
							if do(Case{Kind: "env", Levels: s, Desc: desc, Stage: stage, Sibs: sibs}) {
								goto done
							}
						}
					}
				}
				// a second variable on the complementary levels whose name is a case variant or an extension of the first
				if stage {
					var rest []int
					for l := 1; l <= 6; l++ {
						if !has(s, l) {
							rest = append(rest, l)
						}
					}
					for _, n2 := range []string{"x", "XX", "X_"} {
						if len(rest) > 0 && do(Case{Kind: "env", Levels: s, Second: rest, Stage: true, Name2: n2}) {
							goto done
						}
					}
				}
			}
		}
		// variations do not leak into each other: every subset of the lower levels under a task with three variations
		for _, stage := range []bool{false, true} {
			lv := []int{1, 2, 4}
			if stage {
				lv = []int{1, 2, 4, 5}
			}
			for _, s := range append([][]int{nil}, subsets(lv)...) {
				for _, desc := range []bool{false, true} {
					if do(Case{Kind: "env2", Levels: s, Desc: desc, Stage: stage}) {
						goto done
					}
				}
			}
		}
		if thorough {
			// all value orders for |S| = 3 and a second variable on a disjoint subset
			for _, s := range subsets([]int{1, 2, 3, 4, 5, 6}) {
				if len(s) != 3 {
					continue
				}
				for _, perm := range perms3() {
					order := []int{0, 0, 0, 0, 0, 0}
					for i, l := range s {
						order[l-1] = perm[i]
					}
					if do(Case{Kind: "env", Levels: s, Order: order, Stage: true}) {
						goto done
					}
				}
				var rest []int
				for l := 1; l <= 6; l++ {
					if !has(s, l) {
						rest = append(rest, l)
					}
				}
				for _, desc := range []bool{false, true} {
					if do(Case{Kind: "env", Levels: s, Second: rest, Desc: desc, Stage: true}) {
						goto done
					}
				}
			}
		}
	case "dir":
		for _, stage := range []bool{false, true} {
			lv := []int{1, 2}
			if stage {
				lv = []int{1, 2, 3}
			}
			all := append([][]int{nil}, subsets(lv)...)
			for _, s := range all {
				for _, sub := range []bool{false, true} {
					if do(Case{Kind: "dir", Levels: s, Stage: stage, SubDir: sub}) {
						goto done
					}
					if stage && do(Case{Kind: "dir", Levels: s, Stage: true, Nested: true, SubDir: sub}) {
						goto done
					}
				}
			}
		}
	case "vars":
		for _, stage := range []bool{false, true} {
			lv := []int{1, 2, 3}
			if stage {
				lv = []int{1, 2, 3, 4}
			}
			for _, s := range subsets(lv) {
				for _, desc := range []bool{false, true} {
					if do(Case{Kind: "vars", Levels: s, Desc: desc, Stage: stage}) {
						goto done
					}
					if stage && do(Case{Kind: "vars", Levels: s, Desc: desc, Stage: true, Nested: true}) {
						goto done
					}
				}
				// an earlier target of the same invocation that sets the variable at its own task and stage level
				if do(Case{Kind: "vars", Levels: s, Stage: stage, Prior: true}) {
					goto done
				}
				for vs := 1; vs <= 3; vs++ { // empty winning value, values with '=' and a space, empty lower values
					if do(Case{Kind: "vars", Levels: s, Stage: stage, Vals: vs}) {
						goto done
					}
				}
			}
		}
	case "args":
		alphabet := []string{"a", "t2", "p1", "k=v", "-x", "--set"}
		maxLen := 3
		if thorough {
			maxLen = 5
		}
		var rec func(cur []string) bool
		rec = func(cur []string) bool {
			for _, via := range []string{"", "run"} {
				if thorough && len(cur) >= 4 && via == "run" {
					continue
				}
				if do(Case{Kind: "args", Args: append([]string{}, cur...), Via: via}) {
					return true
				}
			}
			if len(cur) == maxLen {
				return false
			}
			for _, a := range alphabet {
				if rec(append(cur, a)) {
					return true
				}
			}
			return false
		}
		rec(nil)
	case "watch-real": // real inotify: conformance of the injected-event model and end-to-end run of `taskctl watch`
		k := 0
		subs := [][]string{nil}
		if thorough {
			k = 1
			subs = [][]string{nil, {"write"}, {"chmod", "remove"}}
		}
		for _, sub := range subs {
			if do(Case{Kind: "watchreal", Args: sub, K: k}) {
				goto done
			}
		}
		// several watchers named on one command line, in both orders: each observes its own paths and runs its own task
		for _, order := range [][]string{{"w1", "w2"}, {"w2", "w1"}} {
			if do(Case{Kind: "watchreal2", Args: order}) {
				goto done
			}
		}
	case "formats":
		for _, outcome := range []string{"success", "fail", "skipped", "before-fail", "up-fail", "allowed"} {
			for _, stage := range []bool{false, true} {
				if do(Case{Kind: "formats", Via: outcome, Stage: stage, Args: []string{outcome}}) {
					goto done
				}
			}
		}
	case "hooks": // every sequence of <=2 (thorough 3) targets over {ok, bad, plain, pok, pbad}, via root action and `run`
		alphabet := []string{"ok", "bad", "plain", "pok", "pbad"}
		maxLen := 2
		if thorough {
			maxLen = 3
		}
		var rec func(cur []string) bool
		rec = func(cur []string) bool {
			if len(cur) > 0 {
				for _, via := range []string{"", "run"} {
					if do(Case{Kind: "hooks", Args: append([]string{}, cur...), Via: via}) {
						return true
					}
				}
			}
			if len(cur) == maxLen {
				return false
			}
			for _, a := range alphabet {
				// nothing runs after a failing target, and a pipeline listed twice is outside the statement
				if len(cur) > 0 && (cur[len(cur)-1] == "bad" || cur[len(cur)-1] == "pbad") {
					continue
				}
				dup := false
				for _, x := range cur {
					if x == a && (a == "pok" || a == "pbad") {
						dup = true
					}
				}
				if dup {
					continue
				}
				if rec(append(cur, a)) {
					return true
				}
			}
			return false
		}
		rec(nil)
	case "undef":
		for k := 1; k <= 3; k++ {
			for p := 1; p <= k; p++ {
				for _, stage := range []bool{false, true} {
					for _, form := range []string{"", "if", "ifeq", "with", "range", "default", "nested", "printf"} {
						if do(Case{Kind: "undef", K: k, P: p, Stage: stage, Via: form}) {
							goto done
						}
						if do(Case{Kind: "undef", K: k, P: p, Stage: stage, Via: form, Allow: true}) {
							goto done
						}
					}
				}
			}
		}
	default:
		fmt.Fprintln(os.Stderr, "unknown unit")
		os.Exit(2)
	}
done:
	res.Nontrivial = int64(len(distinct))
	res.Configs = res.Evaluations
	res.Write()
}

func perms3() [][]int {
	return [][]int{{1, 2, 3}, {1, 3, 2}, {2, 1, 3}, {2, 3, 1}, {3, 1, 2}, {3, 2, 1}}
}
