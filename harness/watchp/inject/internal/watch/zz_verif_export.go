//go:build verif

package watch

import "sort"

// VerifDump exposes what a watcher selected to the harnesses.
func VerifDump(w *Watcher) (paths []string, events []string, task string) {
	paths = append(paths, w.paths...)
	for e, on := range w.events {
		if on {
			events = append(events, e)
		}
	}
	sort.Strings(events)
	if w.task != nil {
		task = w.task.Name
	}
	return
}

// VerifClose releases the inotify instance of a watcher that was only built, never run.
func VerifClose(w *Watcher) {
	if w != nil && w.fsw != nil {
		w.fsw.Close()
	}
}
