//go:build verif

// Harness "watchp" (C20, path selection): every small directory tree x include/exclude pattern
// sets over a glob grammar through the real watch.NewWatcher; oracle: a direct recursive matcher.
package main

import (
	"fmt"
	"os"
	"path/filepath"
	"sort"
	"strings"
	"time"

	"github.com/taskctl/taskctl/internal/vh/common"
	"github.com/taskctl/taskctl/internal/watch"
	"github.com/taskctl/taskctl/pkg/task"
)

var universe = []string{"a.go", "b.txt", "d/a.go", "d/c.go", "d/e/a.go", "d/e/f.md"}

type pathCase struct {
	Tree    int      `json:"tree"` // bit mask over universe
	Include []string `json:"include"`
	Exclude []string `json:"exclude"`
}

func (c pathCase) files() []string {
	var fs []string
	for i, f := range universe {
		if c.Tree&(1<<uint(i)) != 0 {
			fs = append(fs, f)
		}
	}
	return fs
}

// allPaths: the files of the tree plus the directories they imply.
func (c pathCase) allPaths() []string {
	set := map[string]bool{}
	for _, f := range c.files() {
		set[f] = true
		for d := filepath.Dir(f); d != "."; d = filepath.Dir(d) {
			set[d] = true
		}
	}
	var out []string
	for p := range set {
		out = append(out, p)
	}
	sort.Strings(out)
	return out
}

func segMatch(p, s string) bool {
	if p == "" {
		return s == ""
	}
	switch p[0] {
	case '*':
		for k := 0; k <= len(s); k++ {
			if segMatch(p[1:], s[k:]) {
				return true
			}
		}
		return false
	case '?':
		return len(s) > 0 && segMatch(p[1:], s[1:])
	case '[': // character class: single characters and ranges, ^ or ! negates
		end := strings.IndexByte(p, ']')
		if end < 0 || len(s) == 0 {
			return false
		}
		cls, neg := p[1:end], false
		if cls != "" && (cls[0] == '^' || cls[0] == '!') {
			cls, neg = cls[1:], true
		}
		in := false
		for i := 0; i < len(cls); i++ {
			if i+2 < len(cls) && cls[i+1] == '-' {
				if cls[i] <= s[0] && s[0] <= cls[i+2] {
					in = true
				}
				i += 2
			} else if cls[i] == s[0] {
				in = true
			}
		}
		return in != neg && segMatch(p[end+1:], s[1:])
	case '{': // alternatives (not nested, no path separators inside)
		end := strings.IndexByte(p, '}')
		if end < 0 {
			return false
		}
		for _, alt := range strings.Split(p[1:end], ",") {
			if segMatch(alt+p[end+1:], s) {
				return true
			}
		}
		return false
	}
	return len(s) > 0 && s[0] == p[0] && segMatch(p[1:], s[1:])
}

// match: the documented semantics - `*` and `?` stay within one path segment; `**` as a whole
// segment stands for any number of directories (as the last segment: everything below).
func match(ps, xs []string) bool {
	if len(ps) == 0 {
		return len(xs) == 0
	}
	if ps[0] == "**" {
		if len(ps) == 1 {
			return len(xs) >= 1
		}
		for k := 0; k <= len(xs); k++ {
			if match(ps[1:], xs[k:]) {
				return true
			}
		}
		return false
	}
	return len(xs) > 0 && segMatch(ps[0], xs[0]) && match(ps[1:], xs[1:])
}

func matches(pattern, path string) bool {
	return match(strings.Split(pattern, "/"), strings.Split(path, "/"))
}

func (c pathCase) expected() []string {
	var out []string
	for _, p := range c.allPaths() {
		in := false
		for _, inc := range c.Include {
			if matches(inc, p) {
				in = true
			}
		}
		for _, exc := range c.Exclude {
			if matches(exc, p) {
				in = false
			}
		}
		if in {
			out = append(out, p)
		}
	}
	return out
}

var treeDirs = map[int]string{}
var resourceSkips int

func treeDir(root string, c pathCase) string {
	if d, ok := treeDirs[c.Tree]; ok {
		return d
	}
	d := filepath.Join(root, fmt.Sprintf("tree%d", c.Tree))
	os.MkdirAll(d, 0o755)
	for _, f := range c.files() {
		os.MkdirAll(filepath.Join(d, filepath.Dir(f)), 0o755)
		os.WriteFile(filepath.Join(d, f), nil, 0o644)
	}
	treeDirs[c.Tree] = d
	return d
}

func runCase(root string, c pathCase) string {
	if err := os.Chdir(treeDir(root, c)); err != nil {
		return "infra: " + err.Error()
	}
	var got []string
	var panicked string
	func() {
		defer func() {
			if r := recover(); r != nil {
				panicked = fmt.Sprint(r)
			}
		}()
		w, err := watch.NewWatcher("w", nil, c.Include, c.Exclude, task.FromCommands("true"))
		for attempt := 0; err != nil && strings.Contains(err.Error(), "too many open files") && attempt < 8; attempt++ {
			time.Sleep(time.Duration(300*(attempt+1)) * time.Millisecond)
			w, err = watch.NewWatcher("w", nil, c.Include, c.Exclude, task.FromCommands("true"))
		}
		if err != nil && strings.Contains(err.Error(), "too many open files") {
			panicked = "RESOURCE"
			return
		}
		if err != nil {
			panicked = "error: " + err.Error()
			return
		}
		got, _, _ = watch.VerifDump(w)
		watch.VerifClose(w)
	}()
	if panicked == "RESOURCE" {
		resourceSkips++ // inotify instances exhausted by other activity: this case is not judged
		return ""
	}
	if panicked != "" {
		return "NewWatcher failed: " + panicked
	}
	set := map[string]bool{}
	for _, p := range got {
		set[filepath.ToSlash(p)] = true
	}
	var g []string
	for p := range set {
		g = append(g, p)
	}
	sort.Strings(g)
	want := c.expected()
	if strings.Join(g, " ") != strings.Join(want, " ") {
		return fmt.Sprintf("watcher observes %v, pattern semantics select %v (tree %v)", g, want, c.files())
	}
	return ""
}

func patterns() []string {
	segs := []string{"a.go", "d", "e", "*", "*.go", "?.go", "**"}
	set := map[string]bool{}
	var out []string
	add := func(p string) {
		if !set[p] {
			set[p] = true
			out = append(out, p)
		}
	}
	for _, a := range segs {
		add(a)
		for _, b := range segs {
			if a == "**" && b == "**" {
				continue
			}
			add(a + "/" + b)
			for _, c := range segs {
				if (b == "**" && c == "**") || (a == "**" && c == "**") {
					continue
				}
				// three segments: only those that can match something in the universe
				if a == "a.go" || b == "a.go" || a == "*.go" || b == "*.go" || a == "?.go" || b == "?.go" {
					continue
				}
				add(a + "/" + b + "/" + c)
			}
		}
	}
	return out
}

// patternsExt: patterns that use the remaining documented terms, [class] and {alt1,...}, alone and next
// to the other terms - in particular patterns that contain alternatives but no *, ? or [.
func patternsExt() []string {
	ext := []string{"{a,c}.go", "{a.go,b.txt}", "[ab].*", "[a-c].go", "[^a].go", "{d,x}", "{e,d}"}
	old := []string{"a.go", "d", "e", "*", "*.go", "**"}
	var out []string
	for _, a := range ext {
		out = append(out, a)
		for _, b := range append(append([]string{}, ext...), old...) {
			out = append(out, a+"/"+b)
		}
		for _, b := range old {
			out = append(out, b+"/"+a)
		}
	}
	out = append(out, "d/{e,x}/{a,f}.*", "{d,x}/{e,y}/a.go", "d/e/{a.go,f.md}", "**/{a,c}.go", "**/[ac].go", "{d,x}/**")
	return out
}

func main() {
	common.Init()
	res := common.NewResult("watchp")
	root, _ := os.Getwd()
	if *common.Replay != "" {
		var rf struct {
			Case pathCase `json:"case"`
		}
		common.ReadReplay(&rf)
		d := runCase(root, rf.Case)
		fmt.Printf("case %+v: %s\n", rf.Case, d)
		if d != "" {
			fmt.Printf("VIOLATION property=C20 replay=%s\n", *common.Replay)
			os.Exit(1)
		}
		return
	}
	pats := patterns()
	var idx int64
	distinct := map[string]bool{}
	do := func(c pathCase) bool {
		idx++
		if !common.Mine(idx) {
			return false
		}
		res.Evaluations++
		if res.Evaluations%7919 == 1 {
			res.AddSample(map[string]interface{}{"case": c, "files": c.files(), "selected": c.expected()})
		}
		if len(c.expected()) > 0 {
			distinct[fmt.Sprint(c.Tree, c.Include, c.Exclude)] = true
		}
		d := runCase(root, c)
		if strings.HasPrefix(d, "infra:") {
			fmt.Fprintln(os.Stderr, d)
			os.Exit(2)
		}
		if d != "" {
			return res.AddViolation(common.Violation{Property: "C20", Key: fmt.Sprintf("C20:paths|include=%v|exclude=%v|tree=%d", c.Include, c.Exclude, c.Tree), Desc: fmt.Sprintf("include %v exclude %v: %s", c.Include, c.Exclude, d), Config: c},
				map[string]interface{}{"harness": "watchp", "mode": "plain", "property": "C20", "case": c})
		}
		return false
	}
	switch *common.Unit {
	case "paths-1x1": // every tree x one include pattern x at most one exclude pattern
		for tree := 0; tree < 64; tree++ {
			for _, inc := range pats {
				if do(pathCase{Tree: tree, Include: []string{inc}}) {
					goto done
				}
				if tree != 63 && tree != 21 && tree != 42 {
					continue // excludes: full tree and two half trees
				}
				for _, exc := range pats {
					if do(pathCase{Tree: tree, Include: []string{inc}, Exclude: []string{exc}}) {
						goto done
					}
				}
			}
		}
	case "paths-ext": // every tree x one include pattern using [class] / {alternatives}; the full tree x 4 includes x one such exclude
		for tree := 0; tree < 64; tree++ {
			for _, inc := range patternsExt() {
				if do(pathCase{Tree: tree, Include: []string{inc}}) {
					goto done
				}
			}
		}
		for _, inc := range []string{"**", "**/*.go", "d/**", "*"} {
			for _, exc := range patternsExt() {
				if do(pathCase{Tree: 63, Include: []string{inc}, Exclude: []string{exc}}) {
					goto done
				}
			}
		}
	case "paths-1x2": // the full tree x 4 includes x every ordered pair of exclude patterns from a reduced set
		var red []string
		for _, pt := range pats {
			if strings.Count(pt, "/") <= 1 {
				red = append(red, pt)
			}
		}
		for _, inc := range []string{"**", "**/*.go", "d/**", "*"} {
			for _, e1 := range red {
				for _, e2 := range red {
					if e1 == e2 {
						continue
					}
					if do(pathCase{Tree: 63, Include: []string{inc}, Exclude: []string{e1, e2}}) {
						goto done
					}
				}
			}
		}
		for _, i1 := range []string{"*.go", "d/*"} {
			for _, i2 := range []string{"**/a.go", "d/e/*", "b.txt"} {
				for _, e1 := range append([]string{}, red[:12]...) {
					if do(pathCase{Tree: 63, Include: []string{i1, i2}, Exclude: []string{e1}}) || do(pathCase{Tree: 63, Include: []string{i2, i1}, Exclude: []string{e1}}) {
						goto done
					}
				}
			}
		}
	case "paths-2x2": // thorough: the full tree, <=2 includes x <=2 excludes
		tree := 63
		for i, i1 := range pats {
			for _, i2 := range pats[i:] {
				for j, e1 := range pats {
					for _, e2 := range pats[j:] {
						if do(pathCase{Tree: tree, Include: []string{i1, i2}, Exclude: []string{e1, e2}}) {
							goto done
						}
						if common.Expired() {
							res.Exhaustive, res.Capped = false, "internal deadline"
							goto done
						}
					}
				}
			}
		}
	default:
		fmt.Fprintln(os.Stderr, "unknown unit")
		os.Exit(2)
	}
done:
	res.Nontrivial = int64(len(distinct))
	res.Configs = res.Evaluations
	res.Extra["patterns"] = int64(len(pats))
	if resourceSkips > 0 {
		res.Exhaustive = false
		res.Capped = fmt.Sprintf("%d cases not judged: inotify instances exhausted by other activity on the machine", resourceSkips)
	}
	res.Write()
}
