//go:build verif

package common

import (
	"bytes"
	"os/exec"
	"syscall"
	"time"
)

// RunWithTimeout runs cmd and returns its combined output. If the process has not exited after d,
// it is sent SIGQUIT first (a Go program then dumps its goroutines, which ends up in the output),
// then its whole process group is killed; hung reports that this happened.
func RunWithTimeout(cmd *exec.Cmd, d time.Duration) (out []byte, err error, hung bool) {
	var buf bytes.Buffer
	cmd.Stdout, cmd.Stderr = &buf, &buf
	cmd.SysProcAttr = &syscall.SysProcAttr{Setpgid: true}
	if err := cmd.Start(); err != nil {
		return nil, err, false
	}
	done := make(chan error, 1)
	go func() { done <- cmd.Wait() }()
	select {
	case err = <-done:
		return buf.Bytes(), err, false
	case <-time.After(d):
	}
	cmd.Process.Signal(syscall.SIGQUIT)
	select {
	case err = <-done:
	case <-time.After(3 * time.Second):
		syscall.Kill(-cmd.Process.Pid, syscall.SIGKILL)
		err = <-done
	}
	syscall.Kill(-cmd.Process.Pid, syscall.SIGKILL)
	return buf.Bytes(), err, true
}

// HangSummary extracts the blocked application frames from a goroutine dump.
func HangSummary(dump string) string {
	var out []string
	lines := bytes.Split([]byte(dump), []byte("\n"))
	for i, l := range lines {
		if bytes.HasPrefix(l, []byte("goroutine ")) && (bytes.Contains(l, []byte("[sync.")) || bytes.Contains(l, []byte("[chan ")) || bytes.Contains(l, []byte("[select")) || bytes.Contains(l, []byte("[semacquire"))) {
			s := string(l)
			for j := i + 1; j < len(lines) && len(lines[j]) > 0; j++ {
				if bytes.HasPrefix(lines[j], []byte("github.com/")) {
					s += " " + string(lines[j])
					if len(s) > 400 {
						break
					}
				}
			}
			out = append(out, s)
			if len(out) >= 6 {
				break
			}
		}
	}
	return string(bytes.Join(func() [][]byte {
		var b [][]byte
		for _, s := range out {
			b = append(b, []byte(s))
		}
		return b
	}(), []byte(" || ")))
}
