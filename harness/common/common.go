//go:build verif

// Package common holds what every harness binary shares: flags, sharding, the result file that
// /verif/bin/check merges into evidence, and replay files.
package common

import (
	"encoding/json"
	"flag"
	"fmt"
	"os"
	"path/filepath"
	"sort"
	"strconv"
	"strings"
	"time"
)

// Violation is one counterexample.
type Violation struct {
	Property string      `json:"property"`
	Key      string      `json:"key"`  // canonical identification (matched against known_findings.json)
	Desc     string      `json:"desc"` // human readable
	Replay   string      `json:"replay,omitempty"`
	Config   interface{} `json:"config,omitempty"`
	Choices  []int       `json:"choices,omitempty"`
	Events   []string    `json:"events,omitempty"`
}

// Result is what one harness process reports for one property.
type Result struct {
	Property    string           `json:"property"`
	Harness     string           `json:"harness"`
	Unit        string           `json:"unit"`
	Shard       string           `json:"shard"`
	Tier        string           `json:"tier"`
	Configs     int64            `json:"configs"`
	Evaluations int64            `json:"evaluations"`
	Nontrivial  int64            `json:"distinct_nontrivial"`
	States      int64            `json:"states"`
	Transitions int64            `json:"transitions"`
	Traces      int64            `json:"traces_validated_against_impl"`
	Bound       int              `json:"bound"`
	Exhaustive  bool             `json:"exhaustive"`
	Capped      string           `json:"capped,omitempty"`
	Outcomes    map[string]int64 `json:"outcomes,omitempty"`
	Samples     []interface{}    `json:"samples,omitempty"`
	Violations  []Violation      `json:"violations,omitempty"`
	Notes       []string         `json:"notes,omitempty"`
	Extra       map[string]int64 `json:"extra,omitempty"`
	WallS       float64          `json:"wall_s"`
}

// Flags common to all harness binaries.
var (
	Tier     = flag.String("tier", "quick", "quick|thorough")
	Shard    = flag.String("shard", "0/1", "i/n: this process handles configurations with index%n==i")
	Out      = flag.String("out", "", "result file (JSON)")
	Replay   = flag.String("replay", "", "replay file to re-execute")
	ReplayD  = flag.String("replaydir", "/verif/replays", "directory for replay files")
	Unit     = flag.String("unit", "", "which unit of the check to run")
	Prop     = flag.String("prop", "", "property id")
	Budget   = flag.Duration("budget", 0, "internal deadline (0 = none); hitting it exits 0 with exhaustive=false")
	MaxViol  = flag.Int("maxviol", 40, "stop after this many distinct violation keys")
	SubShard = flag.Bool("subshard", false, "shard the exploration subtrees of every configuration instead of the configurations")
	Seed     = flag.Int64("seed", 0, "rotates the order in which configurations are processed (results do not depend on it)")
	start    = time.Now()
	shardI   = 0
	shardN   = 1
)

// Init parses flags.
func Init() {
	flag.Parse()
	parts := strings.Split(*Shard, "/")
	if len(parts) == 2 {
		shardI, _ = strconv.Atoi(parts[0])
		shardN, _ = strconv.Atoi(parts[1])
	}
	if shardN < 1 {
		shardN = 1
	}
}

// Mine reports whether configuration idx belongs to this shard.
func Mine(idx int64) bool { return *SubShard || int(idx%int64(shardN)) == shardI }

// SubShardOf returns the exploration-subtree shard (0,0 when configurations are sharded).
func SubShardOf() (int, int) {
	if *SubShard {
		return shardI, shardN
	}
	return 0, 0
}

// ShardN returns the number of shards.
func ShardN() int { return shardN }

// Deadline returns the internal deadline (zero if none).
func Deadline() time.Time {
	if *Budget == 0 {
		return time.Time{}
	}
	return start.Add(*Budget)
}

// Expired reports whether the internal deadline has passed.
func Expired() bool { return *Budget != 0 && time.Since(start) > *Budget }

// NewResult creates the result for this process.
func NewResult(harness string) *Result {
	return &Result{Property: *Prop, Harness: harness, Unit: *Unit, Shard: *Shard, Tier: *Tier, Exhaustive: true, Outcomes: map[string]int64{}, Extra: map[string]int64{}}
}

// AddViolation records v unless a violation with the same key is already present. It writes the
// replay file. It reports whether the process should stop (too many violations).
func (r *Result) AddViolation(v Violation, replay interface{}) bool {
	for _, o := range r.Violations {
		if o.Key == v.Key {
			return len(r.Violations) >= *MaxViol
		}
	}
	if replay != nil {
		os.MkdirAll(*ReplayD, 0o755)
		name := fmt.Sprintf("%s-%s-%s-%d.json", v.Property, r.Harness, sanitize(*Shard), len(r.Violations))
		p := filepath.Join(*ReplayD, name)
		b, _ := json.MarshalIndent(replay, "", " ")
		if m := os.Getenv("VERIF_MODE"); m != "" && m != "inst" && m != "plain" {
			// a non-default build of the harness (e.g. instlog): the replay must be run on the same build
			var obj map[string]interface{}
			if json.Unmarshal(b, &obj) == nil {
				if _, has := obj["mode"]; !has {
					obj["mode"] = m
					b, _ = json.MarshalIndent(obj, "", " ")
				}
			}
		}
		if err := os.WriteFile(p, b, 0o644); err == nil {
			v.Replay = p
		}
	}
	r.Violations = append(r.Violations, v)
	return len(r.Violations) >= *MaxViol
}

func sanitize(s string) string {
	return strings.Map(func(r rune) rune {
		if r == '/' {
			return '_'
		}
		return r
	}, s)
}

// AddSample keeps up to 5 samples.
func (r *Result) AddSample(s interface{}) {
	if len(r.Samples) < 5 {
		r.Samples = append(r.Samples, s)
	}
}

// Write stores the result.
func (r *Result) Write() {
	r.WallS = time.Since(start).Seconds()
	sort.Slice(r.Violations, func(i, j int) bool { return r.Violations[i].Key < r.Violations[j].Key })
	b, _ := json.MarshalIndent(r, "", " ")
	if *Out == "" {
		fmt.Println(string(b))
		return
	}
	if err := os.WriteFile(*Out, b, 0o644); err != nil {
		fmt.Fprintln(os.Stderr, "cannot write result:", err)
		os.Exit(2)
	}
}

// ReadReplay loads a replay file into v.
func ReadReplay(v interface{}) {
	b, err := os.ReadFile(*Replay)
	if err != nil {
		fmt.Fprintln(os.Stderr, err)
		os.Exit(2)
	}
	if err := json.Unmarshal(b, v); err != nil {
		fmt.Fprintln(os.Stderr, err)
		os.Exit(2)
	}
}
