//go:build verif

// Harness "outp" (C19, sequential part): every stream of a small grammar under every splitting into
// write calls through the real output decorators into a recording sink.
package main

import (
	"bytes"
	"fmt"
	"os"
	"regexp"
	"strings"

	"github.com/taskctl/taskctl/internal/vh/common"
	"github.com/taskctl/taskctl/pkg/output"
	"github.com/taskctl/taskctl/pkg/task"
)

type sink struct{ writes [][]byte }

func (s *sink) Write(p []byte) (int, error) {
	s.writes = append(s.writes, append([]byte{}, p...))
	return len(p), nil
}

type chunkCase struct {
	Format string   `json:"format"`
	Chunks []string `json:"chunks"`
	Name   string   `json:"name"`
}

// the same ANSI grammar the prefixed decorator claims to strip (CSI / OSC sequences), written
// independently: ESC or CSI introducer, parameter bytes, final byte.
var ansiRe = regexp.MustCompile("[\u001B\u009B][[\\]()#;?]*(?:(?:(?:[a-zA-Z\\d]*(?:;[a-zA-Z\\d]*)*)?\u0007)|(?:(?:\\d{1,4}(?:;\\d{0,4})*)?[\\dA-PRZcf-ntqry=><~]))")

func normalize(b []byte) string {
	b = ansiRe.ReplaceAll(b, nil)
	b = bytes.ReplaceAll(b, []byte("\r"), nil)
	b = bytes.ReplaceAll(b, []byte("\n"), nil)
	return string(b)
}

func runChunks(c chunkCase) string {
	t := task.NewTask()
	t.Name = c.Name
	s := &sink{}
	o, err := output.NewTaskOutput(t, c.Format, s, s)
	if err != nil {
		return "infra: " + err.Error()
	}
	if err := o.Start(); err != nil {
		return "Start failed: " + err.Error()
	}
	w := o.Stdout()
	var input []byte
	// One caller buffer is reused for every write call (the way io.Copy feeds a command's output) and
	// scribbled over after each call: io.Writer implementations must not retain or modify p.
	cbuf := make([]byte, 0, 64)
	for _, ch := range c.Chunks {
		cbuf = append(cbuf[:0], ch...)
		n, err := w.Write(cbuf)
		if err != nil || n != len(ch) {
			return fmt.Sprintf("Write(%q) returned %d, %v", ch, n, err)
		}
		if string(cbuf) != ch {
			return fmt.Sprintf("Write(%q) modified the caller's buffer: %q", ch, cbuf)
		}
		full := cbuf[:cap(cbuf)]
		for i := range full {
			full[i] = '#'
		}
		input = append(input, ch...)
	}
	if err := o.Finish(); err != nil {
		return "Finish failed: " + err.Error()
	}
	if got := t.Log.Stdout.String(); got != string(input) {
		return fmt.Sprintf("task log holds %q, written %q", got, input)
	}
	switch c.Format {
	case output.FormatRaw:
		var all []byte
		for _, wr := range s.writes {
			all = append(all, wr...)
		}
		if string(all) != string(input) {
			return fmt.Sprintf("raw output forwarded %q, written %q", all, input)
		}
	case output.FormatPrefixed:
		var body []byte
		for _, wr := range s.writes {
			if !bytes.HasSuffix(wr, []byte("\r\n")) {
				return fmt.Sprintf("sink write %q is not a whole line", wr)
			}
			line := wr[:len(wr)-2]
			// the prefix is the (coloured) task name followed by ": "
			plain := ansiRe.ReplaceAll(line, nil)
			_ = plain
			i := bytes.Index(line, []byte(c.Name))
			if i < 0 {
				return fmt.Sprintf("line %q does not carry the task name", wr)
			}
			rest := line[i+len(c.Name):]
			j := bytes.Index(rest, []byte(": "))
			if j < 0 {
				return fmt.Sprintf("line %q has no prefix separator", wr)
			}
			body = append(body, rest[j+2:]...)
		}
		if got, want := normalize(body), normalize(input); got != want {
			return fmt.Sprintf("prefixed output carries %q, the task wrote %q (both without line terminators and ANSI sequences); writes %q", got, want, s.writes)
		}
	}
	return ""
}

func splittings(stream string, f func(chunks []string) bool) bool {
	n := len(stream)
	if n == 0 {
		return f(nil)
	}
	for mask := 0; mask < 1<<uint(n-1); mask++ {
		var chunks []string
		start := 0
		for i := 1; i < n; i++ {
			if mask&(1<<uint(i-1)) != 0 {
				chunks = append(chunks, stream[start:i])
				start = i
			}
		}
		chunks = append(chunks, stream[start:])
		if f(chunks) {
			return true
		}
	}
	return false
}

func main() {
	common.Init()
	res := common.NewResult("outp")
	if *common.Replay != "" {
		var rf struct {
			Case chunkCase `json:"case"`
		}
		common.ReadReplay(&rf)
		d := runChunks(rf.Case)
		fmt.Printf("case %+v: %s\n", rf.Case, d)
		if d != "" {
			fmt.Printf("VIOLATION property=C19 replay=%s\n", *common.Replay)
			os.Exit(1)
		}
		return
	}
	pieces := []string{"a", "bc", "\n", "\r\n", "\r", "\x1b[31m", "\x1b[0m", "é"}
	maxPieces, maxLen := 4, 12
	if *common.Tier == "thorough" {
		maxPieces, maxLen = 5, 16
	}
	var idx int64
	streams := map[string]bool{}
	do := func(c chunkCase) bool {
		res.Evaluations++
		if res.Evaluations%200003 == 1 {
			res.AddSample(c)
		}
		d := runChunks(c)
		if strings.HasPrefix(d, "infra:") {
			fmt.Fprintln(os.Stderr, d)
			os.Exit(2)
		}
		if d != "" {
			// classify: which kind of boundary the failing chunking cuts
			// Classify. The one recorded finding is "an ANSI sequence cut by a write boundary is not
			// stripped": it explains the observation exactly when stripping every chunk on its own
			// (as the decorator does per write call) reproduces what came out.
			kind := "content"
			if c.Format == output.FormatPrefixed {
				var pc []byte
				for _, ch := range c.Chunks {
					pc = append(pc, ansiRe.ReplaceAll([]byte(ch), nil)...)
				}
				perChunk := normalize(pc)
				if perChunk != normalize([]byte(strings.Join(c.Chunks, ""))) && strings.Contains(d, fmt.Sprintf("carries %q", perChunk)) {
					kind = "ansi-sequence-split-across-writes"
				}
			}
			if strings.Contains(d, "not a whole line") {
				kind = "partial-line-write"
			}
			return res.AddViolation(common.Violation{Property: "C19", Key: fmt.Sprintf("C19:%s|%s|%q", kind, c.Format, c.Chunks), Desc: fmt.Sprintf("%s %q: %s", c.Format, c.Chunks, d), Config: c},
				map[string]interface{}{"harness": "outp", "mode": "plain", "property": "C19", "case": c})
		}
		return false
	}
	format := map[string]string{"chunks-raw": output.FormatRaw, "chunks-prefixed": output.FormatPrefixed, "long-raw": output.FormatRaw, "long-prefixed": output.FormatPrefixed}[*common.Unit]
	switch *common.Unit {
	case "chunks-raw", "chunks-prefixed":
		var rec func(cur string, k int) bool
		rec = func(cur string, k int) bool {
			idx++
			if len(cur) > maxLen {
				return false
			}
			if common.Mine(idx) {
				streams[cur] = true
				if splittings(cur, func(chunks []string) bool { return do(chunkCase{Format: format, Chunks: chunks, Name: "tsk"}) }) {
					return true
				}
			}
			if k == maxPieces {
				return false
			}
			for _, p := range pieces {
				if rec(cur+p, k+1) {
					return true
				}
			}
			return false
		}
		rec("", 0)
	case "long-raw", "long-prefixed":
		// long lines: lengths around the 4096-byte buffer, split at every 1000th byte, with an ANSI
		// sequence and a multi-byte character placed across the buffer boundary
		for _, n := range []int{0, 1, 4095, 4096, 4097, 8192, 10000} {
			for _, tail := range []string{"", "\n", "\r\n"} {
				for _, special := range []string{"", "\x1b[31m", "é"} {
					for off := 4090; off <= 4098; off++ {
						line := strings.Repeat("x", n)
						if special != "" {
							if off > n {
								continue
							}
							line = line[:off] + special + line[off:]
						} else if off != 4090 {
							continue
						}
						stream := "first\n" + line + tail + "last\n"
						idx++
						if !common.Mine(idx) {
							continue
						}
						streams[fmt.Sprint(n, tail, special, off)] = true
						var chunks []string
						for i := 0; i < len(stream); i += 1000 {
							j := i + 1000
							if j > len(stream) {
								j = len(stream)
							}
							chunks = append(chunks, stream[i:j])
						}
						if do(chunkCase{Format: format, Chunks: []string{stream}, Name: "tsk"}) || do(chunkCase{Format: format, Chunks: chunks, Name: "tsk"}) {
							goto done
						}
					}
				}
			}
		}
	default:
		fmt.Fprintln(os.Stderr, "unknown unit")
		os.Exit(2)
	}
done:
	res.Nontrivial = int64(len(streams))
	res.Configs = int64(len(streams))
	res.Write()
}
