//go:build verif

// Harness "graph" (C05): every digraph on <=4 (thorough: selected 5) named stages, every declaration
// order, dependency lists ascending and descending, through scheduler.NewExecutionGraph, through
// config.buildFromDefinition and through `taskctl graph`; oracle: textbook three-colour DFS.
package main

import (
	"errors"
	"fmt"
	"os"
	"os/exec"
	"path/filepath"
	"regexp"
	"sort"
	"strings"
	"time"

	"github.com/taskctl/taskctl/internal/config"
	"github.com/taskctl/taskctl/internal/vh/common"
	"github.com/taskctl/taskctl/pkg/scheduler"
	"github.com/taskctl/taskctl/pkg/task"
)

var names = []string{"a", "b", "c", "d", "e"}

// alphabets: alphabet 0 is the plain one; the others are built so that the concatenation of two stage
// names around a separator is ambiguous ("a"+S+"bSa" == "aSb"+S+"a"), that names differ only in case,
// or that one name is a prefix of another: any encoding of an edge or a node that is not injective on
// names confuses two declared edges.
var alphabets = func() [][]string {
	out := [][]string{{"a", "b", "c", "d", "e"}}
	for _, sep := range []string{":", "-", ".", "/", "_", ",", " ", "->", "|", "", "\x00", "<-"} {
		out = append(out, []string{"a", "a" + sep + "b", "b" + sep + "a", "b", "a" + sep + "b" + sep + "a"})
	}
	out = append(out, []string{"a", "A", "aa", "Aa", "aA"}, []string{"1", "01", "10", "1.0", "0x1"}, []string{"true", "null", "~", "no", "0"})
	big := make([]string, 400) // the last alphabet: enough names for the large graphs
	for i := range big {
		big[i] = fmt.Sprintf("n%03d", i)
	}
	out = append(out, big)
	return out
}()

type graphCase struct {
	N     int      `json:"n"`
	Edges [][2]int `json:"edges"` // [i,j]: stage i depends on stage j
	Order []int    `json:"order"` // declaration order
	Desc  bool     `json:"desc"`  // dependency lists in descending order
	Route string   `json:"route"`
	Alpha int      `json:"alpha,omitempty"` // naming alphabet
}

func (c graphCase) String() string {
	var parts []string
	names := alphabets[c.Alpha]
	for _, i := range c.Order {
		var ds []string
		for _, d := range c.deps(i) {
			ds = append(ds, names[d])
		}
		parts = append(parts, names[i]+":["+strings.Join(ds, ",")+"]")
	}
	if c.Alpha > 0 {
		return fmt.Sprintf("%s alphabet%d %q", c.Route, c.Alpha, parts)
	}
	return c.Route + " " + strings.Join(parts, " ")
}

func (c graphCase) deps(i int) []int {
	var ds []int
	for _, e := range c.Edges {
		if e[0] == i {
			ds = append(ds, e[1])
		}
	}
	sort.Ints(ds)
	if c.Desc {
		for l, r := 0, len(ds)-1; l < r; l, r = l+1, r-1 {
			ds[l], ds[r] = ds[r], ds[l]
		}
	}
	return ds
}

// cyclic: three-colour depth-first search (the oracle).
func (c graphCase) cyclic() bool {
	adj := make([][]int, c.N)
	for _, e := range c.Edges {
		adj[e[0]] = append(adj[e[0]], e[1])
	}
	col := make([]int, c.N)
	var dfs func(i int) bool
	dfs = func(i int) bool {
		col[i] = 1
		for _, j := range adj[i] {
			if col[j] == 1 || (col[j] == 0 && dfs(j)) {
				return true
			}
		}
		col[i] = 2
		return false
	}
	for i := 0; i < c.N; i++ {
		if col[i] == 0 && dfs(i) {
			return true
		}
	}
	return false
}

func permutations(n int) [][]int {
	var out [][]int
	p := make([]int, n)
	for i := range p {
		p[i] = i
	}
	var rec func(k int)
	rec = func(k int) {
		if k == n {
			out = append(out, append([]int{}, p...))
			return
		}
		for i := k; i < n; i++ {
			p[k], p[i] = p[i], p[k]
			rec(k + 1)
			p[k], p[i] = p[i], p[k]
		}
	}
	rec(0)
	return out
}

func edgesOf(n int, mask uint64) [][2]int {
	var es [][2]int
	k := 0
	for i := 0; i < n; i++ {
		for j := 0; j < n; j++ {
			if mask&(1<<uint(k)) != 0 {
				es = append(es, [2]int{i, j})
			}
			k++
		}
	}
	return es
}

func sameSet(a []string, b []int) bool {
	if len(a) != len(b) {
		return false
	}
	m := map[string]int{}
	for _, x := range a {
		m[x]++
	}
	for _, y := range b {
		m[names[y]]--
	}
	for _, v := range m {
		if v != 0 {
			return false
		}
	}
	return true
}

// checkGraph compares an accepted graph's edges with the declared ones.
func checkGraph(c graphCase, g *scheduler.ExecutionGraph) string {
	if len(g.Nodes()) != c.N {
		return fmt.Sprintf("graph has %d nodes, declared %d", len(g.Nodes()), c.N)
	}
	for i := 0; i < c.N; i++ {
		if !sameSet(g.To(names[i]), c.deps(i)) {
			return fmt.Sprintf("To(%s)=%v, declared %v", names[i], g.To(names[i]), c.deps(i))
		}
		var dependants []int
		for _, e := range c.Edges {
			if e[1] == i {
				dependants = append(dependants, e[0])
			}
		}
		if !sameSet(g.From(names[i]), dependants) {
			return fmt.Sprintf("From(%s)=%v, expected dependants %v", names[i], g.From(names[i]), dependants)
		}
	}
	return ""
}

func runDirect(c graphCase) (verdict, desc string) {
	var stages []*scheduler.Stage
	for _, i := range c.Order {
		st := &scheduler.Stage{Name: names[i], Task: task.FromCommands("true")}
		for _, d := range c.deps(i) {
			st.DependsOn = append(st.DependsOn, names[d])
		}
		stages = append(stages, st)
	}
	g, err := scheduler.NewExecutionGraph(stages...)
	return assess(c, g, err)
}

func assess(c graphCase, g *scheduler.ExecutionGraph, err error) (string, string) {
	cyc := c.cyclic()
	switch {
	case err != nil && !errors.Is(err, scheduler.ErrCycleDetected):
		return "other-error", "unexpected error: " + err.Error()
	case err != nil && !cyc:
		return "false-cycle", "acyclic graph rejected with: " + err.Error()
	case err == nil && cyc:
		return "missed-cycle", "cyclic graph accepted"
	case err == nil:
		if d := checkGraph(c, g); d != "" {
			return "wrong-edges", d
		}
	}
	return "", ""
}

func runConfig(c graphCase) (string, string) {
	var tasks []string
	var stages []config.VerifStage
	for _, i := range c.Order {
		tasks = append(tasks, "t"+names[i])
		st := config.VerifStage{Name: names[i], Task: "t" + names[i]}
		for _, d := range c.deps(i) {
			st.DependsOn = append(st.DependsOn, names[d])
		}
		stages = append(stages, st)
	}
	g, err := config.VerifBuildPipeline(tasks, stages)
	return assess(c, g, err)
}

// runYaml2: the case's pipeline p next to a second, LARGE acyclic pipeline (a 2500-stage chain declared from
// the last stage to the first) in one YAML file, loaded through the configuration loader: what is decided for
// one pipeline must not depend on what else the file contains or on how long that takes to build.
func runYaml2(c graphCase, dir string) (string, string) {
	var b strings.Builder
	b.WriteString("tasks:\n  t:\n    command: \"true\"\npipelines:\n  p:\n")
	for _, i := range c.Order {
		fmt.Fprintf(&b, "    - name: %s\n      task: t\n", names[i])
		if ds := c.deps(i); len(ds) > 0 {
			var s []string
			for _, d := range ds {
				s = append(s, names[d])
			}
			fmt.Fprintf(&b, "      depends_on: [%s]\n", strings.Join(s, ", "))
		}
	}
	b.WriteString("  zbig:\n")
	const k = 2500
	for i := k - 1; i >= 0; i-- {
		fmt.Fprintf(&b, "    - name: z%04d\n      task: t\n", i)
		if i > 0 {
			fmt.Fprintf(&b, "      depends_on: [z%04d]\n", i-1)
		}
	}
	sub, err := os.MkdirTemp(dir, "y2")
	if err != nil {
		return "infra", err.Error()
	}
	defer os.RemoveAll(sub)
	file := filepath.Join(sub, "two.yaml")
	os.WriteFile(file, []byte(b.String()), 0o644)
	os.Setenv("HOME", sub)
	cl := config.NewConfigLoader(config.NewConfig())
	cfg, err := cl.Load(file)
	cyc := c.cyclic()
	switch {
	case cyc && err == nil:
		return "missed-cycle", "a file with the cyclic pipeline p and a large acyclic pipeline was accepted"
	case !cyc && err != nil:
		return "other-error", "a file with an acyclic pipeline p and a large acyclic pipeline was rejected: " + err.Error()
	case !cyc && (cfg.Pipelines["p"] == nil || len(cfg.Pipelines["zbig"].Nodes()) != k):
		return "wrong-edges", "pipelines missing or incomplete after loading"
	}
	return "", ""
}

var edgeRe = regexp.MustCompile(`n(\d+)->n(\d+)`)
var nodeRe = regexp.MustCompile(`n(\d+)\[label="([^"]+)"\]`)

func runBinary(c graphCase, dir string) (string, string) {
	var b strings.Builder
	b.WriteString("tasks:\n")
	for i := 0; i < c.N; i++ {
		fmt.Fprintf(&b, "  t%s:\n    command: \"true\"\n", names[i])
	}
	b.WriteString("pipelines:\n  p:\n")
	for _, i := range c.Order {
		fmt.Fprintf(&b, "    - name: %s\n      task: t%s\n", names[i], names[i])
		if ds := c.deps(i); len(ds) > 0 {
			var s []string
			for _, d := range ds {
				s = append(s, names[d])
			}
			fmt.Fprintf(&b, "      depends_on: [%s]\n", strings.Join(s, ", "))
		}
	}
	file := filepath.Join(dir, "g.yaml")
	os.WriteFile(file, []byte(b.String()), 0o644)
	cmd := exec.Command(os.Getenv("VERIF_TASKCTL"), "-c", file, "graph", "p")
	cmd.Env = []string{"HOME=" + dir, "PATH=/usr/bin:/bin"}
	cmd.Dir = dir
	out, err, hung := common.RunWithTimeout(cmd, 60*time.Second)
	cyc := c.cyclic()
	text := string(out)
	if hung {
		return "hang", "taskctl graph did not exit within 60 s: " + common.HangSummary(text)
	}
	if strings.Contains(text, "panic:") || strings.Contains(text, "fatal error:") {
		return "crash", "taskctl graph crashed: " + text
	}
	if err != nil {
		if strings.Contains(text, "cycle detected") {
			if !cyc {
				return "false-cycle", "acyclic graph rejected by the binary: " + strings.TrimSpace(text)
			}
			return "", ""
		}
		return "other-error", "taskctl graph failed: " + strings.TrimSpace(text)
	}
	if cyc {
		return "missed-cycle", "cyclic graph accepted by the binary"
	}
	label := map[string]string{}
	for _, m := range nodeRe.FindAllStringSubmatch(text, -1) {
		label[m[1]] = m[2]
	}
	got := map[string]bool{}
	for _, m := range edgeRe.FindAllStringSubmatch(text, -1) {
		got[label[m[2]]+"<-"+label[m[1]]] = true // edge from dependency to dependant
	}
	want := map[string]bool{}
	for _, e := range c.Edges {
		want[names[e[0]]+"<-"+names[e[1]]] = true
	}
	if len(got) != len(want) {
		return "wrong-edges", fmt.Sprintf("graph output edges %v, declared %v\n%s", got, want, text)
	}
	for k := range want {
		if !got[k] {
			return "wrong-edges", fmt.Sprintf("graph output edges %v, declared %v", got, want)
		}
	}
	return "", ""
}

func main() {
	common.Init()
	res := common.NewResult("graph")
	dir, _ := os.Getwd()
	run := func(c graphCase) (string, string) {
		names = alphabets[c.Alpha]
		switch c.Route {
		case "direct":
			return runDirect(c)
		case "config":
			return runConfig(c)
		case "yaml2":
			return runYaml2(c, dir)
		}
		return runBinary(c, dir)
	}
	if *common.Replay != "" {
		var c graphCase
		common.ReadReplay(&struct {
			Case *graphCase `json:"case"`
		}{&c})
		v, d := run(c)
		fmt.Printf("case: %s\ncyclic (oracle): %v\nverdict: %s %s\n", c, c.cyclic(), v, d)
		if v != "" {
			fmt.Printf("VIOLATION property=C05 replay=%s\n", *common.Replay)
			os.Exit(1)
		}
		return
	}
	var idx int64
	shapes := map[string]bool{}
	do := func(c graphCase) bool {
		idx++
		if !common.Mine(idx) {
			return false
		}
		res.Evaluations++
		if len(c.Edges) >= 2 && !c.Desc && sort.IntsAreSorted(c.Order) {
			// counted once globally: only for the canonical representative of the edge set
			shapes[fmt.Sprint(c.Route, c.N, c.Edges, c.Alpha)] = true
		}
		if res.Evaluations%50021 == 1 {
			res.AddSample(c.String())
		}
		v, d := run(c)
		if v != "" {
			key := fmt.Sprintf("C05:%s|%s", v, c.String())
			return res.AddViolation(common.Violation{Property: "C05", Key: key, Desc: c.String() + ": " + d, Config: c},
				map[string]interface{}{"harness": "graph", "mode": "plain", "property": "C05", "needs_taskctl": c.Route == "binary", "case": c})
		}
		return false
	}
	alpha := 0
	all := func(route string, nmax int, orders bool, desc bool) {
		for n := 1; n <= nmax; n++ {
			perms := permutations(n)
			if !orders {
				perms = perms[:1]
			}
			for mask := uint64(0); mask < 1<<uint(n*n); mask++ {
				es := edgesOf(n, mask)
				for _, p := range perms {
					for _, ds := range []bool{false, true} {
						if ds && !desc {
							continue
						}
						if do(graphCase{N: n, Edges: es, Order: p, Desc: ds, Route: route, Alpha: alpha}) {
							return
						}
					}
				}
			}
		}
	}
	switch *common.Unit {
	case "direct4":
		all("direct", 4, true, true)
	case "config3":
		all("config", 3, true, true)
	case "config4":
		all("config", 4, true, false)
	case "binary2":
		all("binary", 2, true, true)
	case "binary3":
		all("binary", 3, true, false)
	case "names3": // every digraph on <=3 stages under every adversarial naming alphabet
		for alpha = 1; alpha < len(alphabets)-1; alpha++ {
			all("direct", 3, true, true)
			all("config", 3, true, false)
		}
	case "names4":
		for alpha = 1; alpha < len(alphabets)-1; alpha++ {
			all("direct", 4, true, false)
		}
	case "large": // sizes beyond the exhaustive ones, around powers of two: sparse shapes whose verdict is known
		bigA := len(alphabets) - 1
		// a small pipeline next to a large one in the same file
		for _, es := range [][][2]int{{{0, 1}, {1, 0}}, {{0, 0}}, {{0, 1}, {1, 2}, {2, 0}}, {{1, 0}, {2, 1}}, nil} {
			if do(graphCase{N: 3, Edges: es, Order: []int{0, 1, 2}, Route: "yaml2"}) {
				goto done
			}
		}
		for _, n := range []int{16, 17, 31, 32, 33, 63, 64, 65, 66, 100, 128, 129, 130, 257, 300} {
			ident, rev, inter := make([]int, n), make([]int, n), make([]int, n)
			for i := 0; i < n; i++ {
				ident[i], rev[i] = i, n-1-i
				if i%2 == 0 {
					inter[i] = i / 2
				} else {
					inter[i] = n - 1 - i/2
				}
			}
			var chain, ring, tailLoop, headLoop, layered, selfLast [][2]int
			for i := 1; i < n; i++ {
				chain = append(chain, [2]int{i, i - 1})
			}
			ring = append(append(ring, chain...), [2]int{0, n - 1})
			tailLoop = append(append(tailLoop, chain...), [2]int{n - 2, n - 1}) // the last two stages depend on each other
			headLoop = append(append(headLoop, chain...), [2]int{0, 1})
			selfLast = append(append(selfLast, chain...), [2]int{n - 1, n - 1})
			for i := n / 2; i < n; i++ { // two layers: every stage of the upper half depends on two stages of the lower half
				layered = append(layered, [2]int{i, i - n/2}, [2]int{i, (i - n/2 + 1) % (n / 2)})
			}
			for _, es := range [][][2]int{nil, chain, ring, tailLoop, headLoop, selfLast, layered} {
				for _, p := range [][]int{ident, rev, inter} {
					for _, route := range []string{"direct", "config"} {
						if do(graphCase{N: n, Edges: es, Order: p, Route: route, Alpha: bigA}) {
							goto done
						}
					}
				}
			}
		}
	case "direct5", "direct5-7": // n=5: all labelled graphs with <=5 (direct5-7: <=7) edges in three declaration orders (every labelling is enumerated, so every order of every shape is met)
		n := 5
		maxEdges := 5
		if *common.Unit == "direct5-7" {
			maxEdges = 7
		}
		perms := [][]int{{0, 1, 2, 3, 4}, {4, 3, 2, 1, 0}, {2, 0, 4, 1, 3}}
		for mask := uint64(0); mask < 1<<uint(n*n); mask++ {
			if popcount(mask) > maxEdges {
				continue
			}
			es := edgesOf(n, mask)
			for _, p := range perms {
				if do(graphCase{N: n, Edges: es, Order: p, Route: "direct"}) {
					res.Nontrivial = int64(len(shapes))
					res.Write()
					return
				}
			}
		}
	default:
		fmt.Fprintln(os.Stderr, "unknown unit")
		os.Exit(2)
	}
done:
	res.Nontrivial = int64(len(shapes))
	res.Configs = res.Evaluations
	res.Write()
}

func popcount(x uint64) int {
	n := 0
	for x != 0 {
		x &= x - 1
		n++
	}
	return n
}
