//go:build verif

package config

import "github.com/taskctl/taskctl/pkg/scheduler"

// VerifStage mirrors stageDefinition for harnesses.
type VerifStage struct {
	Name      string
	Task      string
	DependsOn []string
}

// VerifBuildPipeline builds one pipeline named "p" over tasks through buildFromDefinition, exactly
// as Load does after decoding.
func VerifBuildPipeline(tasks []string, stages []VerifStage) (*scheduler.ExecutionGraph, error) {
	def := &configDefinition{Tasks: map[string]*taskDefinition{}, Pipelines: map[string][]*stageDefinition{}}
	for _, t := range tasks {
		def.Tasks[t] = &taskDefinition{Command: []string{"true"}}
	}
	for _, s := range stages {
		def.Pipelines["p"] = append(def.Pipelines["p"], &stageDefinition{Name: s.Name, Task: s.Task, DependsOn: s.DependsOn})
	}
	cfg, err := buildFromDefinition(def, &loaderContext{})
	if err != nil {
		return nil, err
	}
	return cfg.Pipelines["p"], nil
}
