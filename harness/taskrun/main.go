//go:build verif

// Harness "taskrun" (C06, C07): the real TaskRunner.Run on every task of a stated grammar, compared
// with a list-building reference model; C07 additionally through a one-stage pipeline and through
// the taskctl binary (several CLI targets).
package main

import (
	"bytes"
	"fmt"
	"io"
	"os"
	"os/exec"
	"path/filepath"
	"regexp"
	"sort"
	"strings"
	"time"

	"github.com/sirupsen/logrus"

	"github.com/taskctl/taskctl/internal/vh/common"
	"github.com/taskctl/taskctl/pkg/output"
	"github.com/taskctl/taskctl/pkg/runner"
	"github.com/taskctl/taskctl/pkg/scheduler"
	"github.com/taskctl/taskctl/pkg/task"
	"github.com/taskctl/taskctl/pkg/variables"
)

// TaskCase is one task of the grammar. Status[i] is the exit status of command i (0 = ok).
type TaskCase struct {
	Status     []int  `json:"status"`
	Variations int    `json:"variations"` // 0 = none
	Allow      bool   `json:"allow"`
	Before     string `json:"before"` // "", "ok", "fail"
	After      string `json:"after"`
	Cond       string `json:"cond"`                  // "", "true", "false"
	CondStatus int    `json:"cond_status,omitempty"` // exit status of a false condition (default 1)
	Pipeline   bool   `json:"pipeline"`
	EmptyVar   int    `json:"empty_var,omitempty"` // this variation (1-based) is an empty map: it varies nothing but is a declared variation all the same
	StageOv    string `json:"stage_ov,omitempty"`  // with Pipeline: the stage carries an override (env, vars, dir), so the scheduler runs a copy of the task
}

func (c TaskCase) String() string {
	return fmt.Sprintf("status=%v variations=%d allow=%v before=%q after=%q cond=%q pipeline=%v%s%s", c.Status, c.Variations, c.Allow, c.Before, c.After, c.Cond, c.Pipeline, map[bool]string{true: " stage-override=" + c.StageOv, false: ""}[c.StageOv != ""], map[bool]string{true: fmt.Sprintf(" empty-variation=%d", c.EmptyVar), false: ""}[c.EmptyVar != 0])
}

type expect struct {
	Tokens   []string
	Err      bool
	Errored  bool
	Skipped  bool
	ExitCode int
}

// model: before -> for each variation in order each command in order, stop at the first failing
// command unless allowed -> after only if not stopped.
func model(c TaskCase) expect {
	var e expect
	e.ExitCode = 0
	if c.Cond != "" {
		e.Tokens = append(e.Tokens, "K")
		if c.Cond == "false" {
			e.Skipped = true
			e.ExitCode = -1
			return e
		}
	}
	if c.Before == "ok,ok" || c.Before == "ok,fail" {
		e.Tokens = append(e.Tokens, "B", "B2")
		if c.Before == "ok,fail" {
			e.Err = true
			e.ExitCode = -2
			return e
		}
	} else if c.Before != "" {
		e.Tokens = append(e.Tokens, "B")
		if c.Before == "fail" || c.Before == "fail,ok" {
			e.Err = true
			// a failing before prevents all commands; the property does not say which result
			// fields are set, only that the run reports an error
			e.ExitCode = -2 // not compared
			return e
		}
	}
	vars := []string{""}
	if c.Variations > 0 {
		vars = nil
		for v := 1; v <= c.Variations; v++ {
			if v == c.EmptyVar {
				vars = append(vars, "")
			} else {
				vars = append(vars, fmt.Sprintf("v%d", v))
			}
		}
	}
	for _, v := range vars {
		for i, s := range c.Status {
			e.Tokens = append(e.Tokens, fmt.Sprintf("C%d.%s", i+1, v))
			if s != 0 && !c.Allow {
				e.Err, e.Errored, e.ExitCode = true, true, s
				return e
			}
		}
	}
	if c.After != "" {
		e.Tokens = append(e.Tokens, "A")
		if c.After == "ok,ok" || c.After == "fail,ok" {
			// every after command runs once; a failing after command only warns
			e.Tokens = append(e.Tokens, "A2")
		}
	}
	return e
}

func buildTask(c TaskCase) *task.Task {
	t := task.NewTask()
	t.Name = "t"
	t.AllowFailure = c.Allow
	for i, s := range c.Status {
		cmd := fmt.Sprintf("echo C%d.$V", i+1)
		if s != 0 {
			cmd += fmt.Sprintf("; exit %d", s)
		}
		t.Commands = append(t.Commands, cmd)
	}
	for v := 1; v <= c.Variations; v++ {
		if v == c.EmptyVar {
			t.Variations = append(t.Variations, map[string]string{})
		} else {
			t.Variations = append(t.Variations, map[string]string{"V": fmt.Sprintf("v%d", v)})
		}
	}
	switch c.Before {
	case "ok":
		t.Before = []string{"echo B"}
	case "fail":
		t.Before = []string{"echo B; exit 3"}
	case "ok,ok":
		t.Before = []string{"echo B", "echo B2"}
	case "ok,fail":
		t.Before = []string{"echo B", "echo B2; exit 3"}
	case "fail,ok":
		t.Before = []string{"echo B; exit 3", "echo B2"}
	}
	switch c.After {
	case "ok":
		t.After = []string{"echo A"}
	case "fail":
		t.After = []string{"echo A; exit 4"}
	case "ok,ok":
		t.After = []string{"echo A", "echo A2"}
	case "fail,ok":
		t.After = []string{"echo A; exit 4", "echo A2"}
	}
	switch c.Cond {
	case "true":
		t.Condition = "echo K"
	case "false":
		st := c.CondStatus
		if st == 0 {
			st = 1
		}
		t.Condition = fmt.Sprintf("echo K; exit %d", st)
	}
	return t
}

type observed struct {
	Tokens   []string
	Err      bool
	Errored  bool
	Skipped  bool
	ExitCode int
	Stage    int32
	SchedErr bool
}

func runCase(c TaskCase) (o observed, panicked string) {
	defer func() {
		if r := recover(); r != nil {
			panicked = fmt.Sprint(r)
		}
	}()
	var buf bytes.Buffer
	r, err := runner.NewTaskRunner()
	if err != nil {
		panic(err)
	}
	r.Stdout, r.Stderr, r.OutputFormat = &buf, io.Discard, output.FormatRaw
	t := buildTask(c)
	if c.Pipeline {
		st0 := &scheduler.Stage{Name: "s", Task: t}
		switch c.StageOv {
		case "env":
			st0.Env = variables.FromMap(map[string]string{"STAGE_ENV": "1"})
		case "vars":
			st0.Variables = variables.FromMap(map[string]string{"stagevar": "1"})
		case "dir":
			st0.Dir = os.TempDir()
		}
		g, err := scheduler.NewExecutionGraph(st0)
		if err != nil {
			panic(err)
		}
		sd := scheduler.NewScheduler(r)
		o.SchedErr = sd.Schedule(g) != nil
		o.Err = o.SchedErr
		st, _ := g.Node("s")
		o.Stage = st.ReadStatus()
	} else {
		o.Err = r.Run(t) != nil
	}
	for _, l := range strings.Split(buf.String(), "\n") {
		if l != "" {
			o.Tokens = append(o.Tokens, l)
		}
	}
	o.Errored, o.Skipped, o.ExitCode = t.Errored, t.Skipped, int(t.ExitCode)
	if c.StageOv != "" {
		o.ExitCode = -3 // the scheduler ran a copy: the result fields of the original are not compared
	}
	return o, ""
}

// compare returns the violations (property, kind, description).
func compare(c TaskCase, e expect, o observed) [][3]string {
	var v [][3]string
	if got, want := strings.Join(o.Tokens, " "), strings.Join(e.Tokens, " "); got != want {
		v = append(v, [3]string{"C06", "order", fmt.Sprintf("command trace %q, model %q", got, want)})
	}
	if o.Skipped != e.Skipped {
		v = append(v, [3]string{"C06", "skipped", fmt.Sprintf("Skipped=%v, model %v", o.Skipped, e.Skipped)})
	}
	if o.Err != e.Err {
		v = append(v, [3]string{"C07", "error", fmt.Sprintf("run reported error=%v, model %v", o.Err, e.Err)})
		v = append(v, [3]string{"C06", "error", fmt.Sprintf("run reported error=%v, model %v", o.Err, e.Err)})
	}
	if e.ExitCode != -2 && o.ExitCode != -3 {
		if o.Errored != e.Errored {
			v = append(v, [3]string{"C07", "errored", fmt.Sprintf("Errored=%v, model %v", o.Errored, e.Errored)})
		}
		if o.ExitCode != e.ExitCode {
			v = append(v, [3]string{"C07", "exitcode", fmt.Sprintf("ExitCode=%d, model %d", o.ExitCode, e.ExitCode)})
		}
	}
	if c.Pipeline {
		// the stage must be reported failed exactly when the task failed (status class)
		failed := o.Stage == scheduler.StatusError
		if failed != e.Err {
			v = append(v, [3]string{"C07", "stage-status", fmt.Sprintf("stage status %d, task failed=%v", o.Stage, e.Err)})
		}
	}
	return v
}

func forStatus(k int, alphabet []int, f func(st []int)) {
	st := make([]int, k)
	var rec func(i int)
	rec = func(i int) {
		if i == k {
			f(append([]int{}, st...))
			return
		}
		for _, a := range alphabet {
			st[i] = a
			rec(i + 1)
		}
	}
	rec(0)
}

func main() {
	if os.Getenv("VERIF_CHILD") != "" {
		cancelChild()
		return
	}
	common.Init()
	logrus.SetOutput(io.Discard)
	res := common.NewResult("taskrun")
	target := *common.Prop
	if *common.Replay != "" {
		var rf struct {
			Case  *TaskCase `json:"case"`
			Cli   *cliCase  `json:"cli"`
			Cap   *capCase  `json:"cap"`
			To    *toCase   `json:"to"`
			Cp    *cpCase   `json:"cp"`
			Hist  *histCase `json:"hist"`
			Pipe3 *TaskCase `json:"pipe3"`
			Tail  *tailCase `json:"tail"`
		}
		common.ReadReplay(&rf)
		bad := false
		if rf.Tail != nil {
			d := runTail(*rf.Tail)
			fmt.Printf("tail case %+v: %s\n", *rf.Tail, d)
			bad = d != ""
		} else if rf.Pipe3 != nil {
			k, d := runPipe3(*rf.Pipe3)
			fmt.Printf("pipeline a->b, c with a = %s: %s %s\n", *rf.Pipe3, k, d)
			bad = k != ""
		} else if rf.Hist != nil {
			k, d := runHistory(*rf.Hist)
			fmt.Printf("history %s: %s %s\n", *rf.Hist, k, d)
			bad = k != "" && !((target == "C07" && k != "error" && k != "errored" && k != "exitcode") || (target != "C07" && (k == "errored" || k == "exitcode")))
		} else if rf.Cp != nil {
			d := runCancelProc(*rf.Cp)
			fmt.Printf("cancel-proc case %+v: %s\n", *rf.Cp, d)
			bad = d != "" && !strings.HasPrefix(d, "NOTJUDGED:")
		} else if rf.To != nil {
			d := runTimeout(*rf.To)
			fmt.Printf("timeout case %+v: %s\n", *rf.To, d)
			bad = d != ""
		} else if rf.Cap != nil {
			d := runCapture(*rf.Cap)
			fmt.Printf("capture case %+v: %s\n", *rf.Cap, d)
			bad = d != ""
		} else if rf.Cli != nil {
			d := runCli(*rf.Cli)
			fmt.Printf("cli case %v: %s\n", *rf.Cli, d)
			bad = d != ""
		} else {
			o, p := runCase(*rf.Case)
			e := model(*rf.Case)
			fmt.Printf("case: %s\nobserved: %+v panic=%q\nmodel: %+v\n", rf.Case, o, p, e)
			for _, v := range compare(*rf.Case, e, o) {
				fmt.Println("oracle:", v)
				if v[0] == target {
					bad = true
				}
			}
			if p != "" {
				bad = true
			}
		}
		if bad {
			fmt.Printf("VIOLATION property=%s replay=%s\n", target, *common.Replay)
			os.Exit(1)
		}
		return
	}
	var idx int64
	distinct := map[string]bool{}
	do := func(c TaskCase) bool {
		idx++
		if !common.Mine(idx) {
			return false
		}
		res.Evaluations++
		e := model(c)
		o, p := runCase(c)
		distinct[strings.Join(o.Tokens, " ")+fmt.Sprint(o.Err, o.Skipped, o.ExitCode)] = true
		if res.Evaluations%401 == 1 {
			res.AddSample(map[string]interface{}{"case": c.String(), "trace": o.Tokens, "error": o.Err, "exit_code": o.ExitCode})
		}
		if p != "" {
			return res.AddViolation(common.Violation{Property: target, Key: target + ":panic|" + c.String(), Desc: c.String() + ": panic " + p, Config: c},
				map[string]interface{}{"harness": "taskrun", "mode": "plain", "property": target, "case": c})
		}
		for _, v := range compare(c, e, o) {
			if v[0] != target {
				continue
			}
			return res.AddViolation(common.Violation{Property: target, Key: target + ":" + v[1] + "|" + c.String(), Desc: c.String() + ": " + v[2], Config: c},
				map[string]interface{}{"harness": "taskrun", "mode": "plain", "property": target, "case": c})
		}
		return false
	}
	hooks := []string{"", "ok", "fail"}
	conds := []string{"", "true", "false"}
	grammar := func(kmax, vmax int, alphabet []int, maxFail int) {
		for k := 1; k <= kmax; k++ {
			stop := false
			forStatus(k, alphabet, func(st []int) {
				if stop {
					return
				}
				nf := 0
				for _, s := range st {
					if s != 0 {
						nf++
					}
				}
				if maxFail >= 0 && nf > maxFail {
					return
				}
				for v := 0; v <= vmax; v++ {
					for _, allow := range []bool{false, true} {
						for _, b := range hooks {
							for _, a := range hooks {
								for _, cd := range conds {
									if do(TaskCase{Status: st, Variations: v, Allow: allow, Before: b, After: a, Cond: cd}) {
										stop = true
										return
									}
								}
							}
						}
					}
				}
			})
			if stop {
				return
			}
		}
	}
	switch *common.Unit {
	case "large": // "plus larger tasks": 6..40 commands x 0..12 variations, one failing command at the first, a middle or the last position (or none), every hook/condition combination
		for _, k := range []int{6, 17, 40} {
			for _, v := range []int{0, 5, 12} {
				for _, pos := range []int{-1, 0, k / 2, k - 1} {
					st := make([]int, k)
					if pos >= 0 {
						st[pos] = 3
					}
					for _, allow := range []bool{false, true} {
						for _, b := range hooks {
							for _, a := range hooks {
								for _, cd := range conds {
									if do(TaskCase{Status: st, Variations: v, Allow: allow, Before: b, After: a, Cond: cd}) {
										goto done
									}
								}
							}
						}
					}
				}
			}
		}
	case "grammar3": // k<=3, v<=3, statuses {0,1,2,255}, full product
		grammar(3, 3, []int{0, 1, 2, 255}, -1)
	case "grammar4": // thorough: k<=4, v<=4, at most two failing commands over {1,2,127,255}
		grammar(4, 4, []int{0, 1, 2, 127, 255}, 2)
	case "hooks2": // two-command before / after hooks
		for _, st := range [][]int{{0}, {0, 1}, {2, 0}} {
			for _, allow := range []bool{false, true} {
				for _, b := range []string{"", "ok,ok", "ok,fail", "fail,ok"} {
					for _, a := range []string{"", "ok,ok", "fail,ok"} {
						for _, v := range []int{0, 2} {
							if do(TaskCase{Status: st, Variations: v, Allow: allow, Before: b, After: a}) {
								goto done
							}
						}
					}
				}
			}
		}
	case "sweep": // every status 1..255 at every single position of k<=3 commands, allow on/off, direct and as a pipeline stage
		for k := 1; k <= 3; k++ {
			for p := 0; p < k; p++ {
				for s := 0; s <= 255; s++ {
					st := make([]int, k)
					st[p] = s
					for _, allow := range []bool{false, true} {
						for _, pl := range []bool{false, true} {
							if do(TaskCase{Status: st, Allow: allow, Pipeline: pl}) {
								goto done
							}
						}
					}
				}
			}
		}
		for _, cd := range conds {
			for _, pl := range []bool{false, true} {
				if do(TaskCase{Status: []int{0}, Cond: cd, Pipeline: pl}) {
					goto done
				}
			}
		}
		for s := 1; s <= 255; s++ { // a condition that exits with any non-zero status means "skipped"
			if do(TaskCase{Status: []int{0}, Cond: "false", CondStatus: s}) {
				goto done
			}
		}
	case "emptyvar": // a variation that is an empty map, at every position of 1..3 variations
		for k := 1; k <= 2; k++ {
			stop := false
			forStatus(k, []int{0, 1}, func(st []int) {
				for v := 1; v <= 3; v++ {
					for ev := 1; ev <= v; ev++ {
						for _, allow := range []bool{false, true} {
							for _, pl := range []bool{false, true} {
								if stop || do(TaskCase{Status: st, Variations: v, EmptyVar: ev, Allow: allow, Before: "ok", After: "ok", Pipeline: pl}) {
									stop = true
									return
								}
							}
						}
					}
				}
			})
			if stop {
				goto done
			}
		}
	case "stagecopy": // the task grammar run as a pipeline stage, plain and with each kind of stage override (the scheduler then runs a copy of the task)
		for k := 1; k <= 2; k++ {
			stop := false
			forStatus(k, []int{0, 1}, func(st []int) {
				for _, v := range []int{0, 1, 2, 3} {
					for _, allow := range []bool{false, true} {
						for _, b := range []string{"", "ok"} {
							for _, a := range []string{"", "ok"} {
								for _, ov := range []string{"", "env", "vars", "dir"} {
									if stop || do(TaskCase{Status: st, Variations: v, Allow: allow, Before: b, After: a, Pipeline: true, StageOv: ov}) {
										stop = true
										return
									}
								}
							}
						}
					}
				}
			})
			if stop {
				goto done
			}
		}
	case "rawtail": // C19: output of failing commands, unterminated tails
		tailUnit(res)
	case "pipe3": // C02 on the real runner
		pipe3Unit(res, target)
	case "history2": // k<=2 commands, histories of 2 and 3 runs
		historyUnit(res, target, 2, 3)
	case "history3": // thorough: k<=3 commands, histories of up to 3 runs
		historyUnit(res, target, 3, 3)
	case "capture":
		captureUnit(res)
	case "timeout", "timeout-serial":
		timeoutUnit(res)
	case "cancel-proc":
		cancelProcUnit(res)
	case "clishare": // a pipeline included by several stages of the requested pipeline (alone, before and after other targets)
		cliUnit(res, 2, []int{1, 3}, "ok", "pshseq", "pshallow", "pshlate", "pconderr")
	case "cli2":
		cliUnit(res, 2, []int{1})
	case "cli3":
		cliUnit(res, 3, []int{1})
	case "cli4":
		cliUnit(res, 4, []int{1, 2, 3, 126, 127, 255})
	default:
		fmt.Fprintln(os.Stderr, "unknown unit")
		os.Exit(2)
	}
done:
	if res.Nontrivial == 0 {
		res.Nontrivial = int64(len(distinct))
	}
	res.Configs = res.Evaluations
	res.Write()
}

// ---- C11: output capture and hand-over (in-process) ----

type capCase struct {
	Name    string `json:"name"`
	Payload string `json:"payload"` // index into payloads
	Shape   string `json:"shape"`   // one, two, two-x2, allowed-failure, chain, failed-chain, ansi-split, rerun, rerun-copy
	Export  string `json:"export"`
	Format  string `json:"format,omitempty"` // output format of the runner (default raw): what is captured must not depend on it
}

var nonNameRe = regexp.MustCompile("[^a-zA-Z0-9_]")

func payloads() map[string]string {
	big := strings.Repeat("0123456789abcdef", 4096) // 64 KiB
	return map[string]string{
		"empty": "", "x": "x", "line": "x\n", "two-lines": "l1\nl2\n", "crlf": "a\r\nb\r\n", "utf8": "h\u00e9llo \u4e16\u754c\n",
		"64k": big, "no-final-newline": "tail without newline", "spaces": "  lead and trail  \n", "quotes": "it's \"quoted\" $HOME `x`\n",
	}
}

func runCapture(c capCase) string {
	pl := payloads()[c.Payload]
	var buf bytes.Buffer
	r, err := runner.NewTaskRunner()
	if err != nil {
		return "infra: " + err.Error()
	}
	r.Stdout, r.Stderr, r.OutputFormat = &buf, io.Discard, output.FormatRaw
	if c.Format != "" {
		r.OutputFormat = c.Format
	}
	t := task.NewTask()
	t.Name = c.Name
	t.ExportAs = c.Export
	t = t.WithEnv("PAYLOAD", pl)
	emit := "printf '%s' \"$PAYLOAD\"; printf 'ERR' >&2"
	want := ""
	switch c.Shape {
	case "one":
		t.Commands = []string{emit}
		want = pl
	case "two":
		t.Commands = []string{emit, "printf '%s' second"}
		want = pl + "second"
	case "two-x2":
		t.Commands = []string{emit, "printf '%s' \"$V\""}
		t.Variations = []map[string]string{{"V": "v1"}, {"V": "v2"}}
		want = pl + "v1" + pl + "v2"
	case "allowed-failure":
		t.Commands = []string{emit, "printf '%s' mid; exit 3", "printf '%s' last"}
		t.AllowFailure = true
		want = pl + "mid" + "last"
	case "chain":
		// command 2 prints the previous command's output through the .Output template variable
		t.Commands = []string{"printf '%s' 'first out'", "printf '%s' '<{{.Output}}>'", "printf '%s' '[{{.Output}}]'"}
		want = "first out" + "<first out>" + "[<first out>]"
	case "ansi-split":
		// an escape sequence that begins in one command's output and ends in the next one's (and one cut
		// inside a single command by a pause): capture is about bytes, whatever the display does with them
		t.Commands = []string{"printf 'start \\033['", "printf '1;31mred\\033[0m\\n'; printf 'x\\033[3'; printf '2mgreen\\033[0m'", emit}
		want = "start \x1b[" + "1;31mred\x1b[0m\n" + "x\x1b[3" + "2mgreen\x1b[0m" + pl
	case "failed-chain":
		// the same hand-over when the producing command fails and the task allows failure
		t.Commands = []string{"printf '%s' 'first out'; exit 3", "printf '%s' '<{{.Output}}>'; exit 4", "printf '%s' '[{{.Output}}]'"}
		t.AllowFailure = true
		want = "first out" + "<first out>" + "[<first out>]"
	case "hooks":
		// before/after hooks that print: what is captured is what the task's COMMANDS wrote
		t.Before = []string{"printf 'before-hook-out\\n'"}
		t.After = []string{"printf 'after-hook-out\\n'"}
		t.Commands = []string{emit, "printf '%s' second"}
		want = pl + "second"
	case "rerun", "rerun-copy":
		// the task has already run once in this invocation (an earlier target, an earlier stage sharing it, the
		// watcher's start-up run - which is followed by runs of a struct copy): what is captured is this run's output
		t.Commands = []string{emit, "printf '%s' second"}
		want = pl + "second"
		if err := r.Run(t); err != nil {
			return "first run of the producer failed: " + err.Error()
		}
		if c.Shape == "rerun-copy" {
			tc := *t
			t = &tc
		}
	}
	if err := r.Run(t); err != nil {
		return "producer failed: " + err.Error()
	}
	if got := t.Output(); got != want {
		return fmt.Sprintf("Task.Output() = %q, the commands wrote %q", trunc(got), trunc(want))
	}
	// a consumer on the same runner reads the derived (or exportAs) variable
	varName := c.Export
	if varName == "" {
		varName = nonNameRe.ReplaceAllString(strings.ToUpper(c.Name)+"_OUTPUT", "_")
	}
	cons := task.FromCommands("printf '%s' \"$" + varName + "\"")
	cons.Name = "consumer"
	if err := r.Run(cons); err != nil {
		return "consumer failed: " + err.Error()
	}
	if got := cons.Output(); got != want {
		return fmt.Sprintf("consumer read $%s = %q, producer wrote %q", varName, trunc(got), trunc(want))
	}
	return ""
}

func trunc(s string) string {
	if len(s) > 80 {
		return s[:40] + "..." + s[len(s)-30:] + fmt.Sprintf(" (%d bytes)", len(s))
	}
	return s
}

func captureUnit(res *common.Result) {
	var names []string
	for ch := 32; ch < 127; ch++ {
		names = append(names, "a"+string(rune(ch))+"b")
	}
	names = append(names, "build:all", "my-task.v2", "UPPER lower", "x__y", "t", "a.b.c-d:e/f", "caf\u00e9", "tab\there")
	var idx int64
	distinct := map[string]bool{}
	do := func(c capCase) bool {
		idx++
		if !common.Mine(idx) {
			return false
		}
		res.Evaluations++
		distinct[c.Payload+"/"+c.Shape+"/"+c.Export+"/"+c.Format] = true
		if res.Evaluations%53 == 1 {
			res.AddSample(c)
		}
		d := runCapture(c)
		if strings.HasPrefix(d, "infra:") {
			fmt.Fprintln(os.Stderr, d)
			os.Exit(2)
		}
		if d != "" {
			return res.AddViolation(common.Violation{Property: "C11", Key: fmt.Sprintf("C11:capture|%q|%s|%s|%s|%s", c.Name, c.Payload, c.Shape, c.Export, c.Format), Desc: fmt.Sprintf("%+v: %s", c, d), Config: c},
				map[string]interface{}{"harness": "taskrun", "mode": "plain", "property": "C11", "cap": c})
		}
		return false
	}
	var pls []string
	for k := range payloads() {
		pls = append(pls, k)
	}
	sort.Strings(pls)
	// every name with the simple payload and shape; every payload x shape x exportAs with three names
	for _, n := range names {
		for _, ex := range []string{"", "MYVAR"} {
			if do(capCase{Name: n, Payload: "two-lines", Shape: "two", Export: ex}) {
				return
			}
		}
	}
	// the capture must not depend on the output format
	for _, f := range []string{output.FormatPrefixed, output.FormatCockpit} {
		for _, p := range pls {
			for _, sh := range []string{"one", "two-x2", "allowed-failure", "chain", "failed-chain", "ansi-split", "rerun", "rerun-copy", "hooks"} {
				if do(capCase{Name: "plain", Payload: p, Shape: sh, Format: f}) {
					return
				}
			}
		}
	}
	for _, n := range []string{"plain", "a.b", "build:all"} {
		for _, p := range pls {
			for _, sh := range []string{"one", "two", "two-x2", "allowed-failure", "chain", "failed-chain", "ansi-split", "rerun", "rerun-copy", "hooks"} {
				for _, ex := range []string{"", "MYVAR"} {
					if do(capCase{Name: n, Payload: p, Shape: sh, Export: ex}) {
						return
					}
				}
			}
		}
	}
	res.Nontrivial = int64(len(distinct))
}

// ---- C13: task timeout (real clock; the configuration space is enumerated, each configuration is observed under one real timing) ----

type toCase struct {
	TimeoutMs int    `json:"timeout_ms"`
	Shape     string `json:"shape"`    // sleep, busy, trap, fast, share
	Position  string `json:"position"` // "1","2","3","before","after"
	Allow     bool   `json:"allow"`
	Prior     bool   `json:"prior,omitempty"` // the command before the overrunning one exits non-zero (tolerated: allow_failure)
	Stage     bool   `json:"stage,omitempty"` // the task runs as a pipeline stage that carries an env override (the scheduler runs a copy of the task)
	Var2      bool   `json:"var2,omitempty"`  // the task has two variations and the command overruns in the second one only
	Rerun     bool   `json:"rerun,omitempty"` // the task object has already run once, within its timeout: the timeout bounds the commands of the second run all the same
}

func runTimeout(c toCase) string {
	dir, err := os.MkdirTemp(".", "to")
	if err != nil {
		return "infra: " + err.Error()
	}
	defer os.RemoveAll(dir)
	dir, _ = filepath.Abs(dir)
	trace := filepath.Join(dir, "trace")
	over := map[string]string{
		"sleep": "sleep 60",
		"busy":  "while :; do :; done",
		"trap":  "sh -c 'trap \"\" INT; exec sleep 30'",
	}[c.Shape]
	if c.Rerun && over != "" {
		over = "if [ -e " + filepath.Join(dir, "slow") + " ]; then " + over + "; fi"
	}
	mark := func(m string) string { return "echo " + m + " >> " + trace }
	t := task.NewTask()
	t.Name = "to"
	d := time.Duration(c.TimeoutMs) * time.Millisecond
	t.Timeout = &d
	t.AllowFailure = c.Allow
	var want []string
	wantErr := false
	switch c.Shape {
	case "fast":
		t.Before, t.After = []string{mark("b")}, []string{mark("a")}
		t.Commands = []string{mark("m1"), mark("m2"), mark("m3")}
		want = []string{"b", "m1", "m2", "m3", "a"}
	case "share-before", "share-after": // every hook command gets the full timeout too
		part := fmt.Sprintf("sleep %.2f", float64(c.TimeoutMs)*0.4/1000)
		hooks := []string{part + "; " + mark("h1"), part + "; " + mark("h2"), part + "; " + mark("h3")}
		t.Commands = []string{mark("m1")}
		if c.Shape == "share-before" {
			t.Before = hooks
			want = []string{"h1", "h2", "h3", "m1"}
		} else {
			t.After = hooks
			want = []string{"m1", "h1", "h2", "h3"}
		}
	case "share": // each command gets the full timeout: three commands of 0.4 T each
		part := fmt.Sprintf("sleep %.2f", float64(c.TimeoutMs)*0.4/1000)
		t.Commands = []string{part + "; " + mark("m1"), part + "; " + mark("m2"), part + "; " + mark("m3")}
		want = []string{"m1", "m2", "m3"}
	default:
		t.Before, t.After = []string{mark("b")}, []string{mark("a")}
		t.Commands = []string{mark("m1"), mark("m2"), mark("m3")}
		switch c.Position {
		case "before":
			t.Before = []string{mark("b") + "; " + over}
			want, wantErr = []string{"b"}, true
		case "after":
			t.After = []string{mark("a") + "; " + over}
			want = []string{"b", "m1", "m2", "m3", "a"}
			if c.Prior {
				t.Commands[1] += "; exit 3"
			}
		default:
			p := int(c.Position[0] - '0')
			t.Commands[p-1] = mark(fmt.Sprintf("m%d", p)) + "; " + over
			if c.Prior && p >= 2 {
				t.Commands[p-2] += "; exit 3"
			}
			want = []string{"b"}
			if c.Var2 {
				// every command of every variation is bounded by the timeout: the first variation runs through
				t.Variations = []map[string]string{{"SLOW": "0"}, {"SLOW": "1"}}
				t.Commands[p-1] = mark(fmt.Sprintf("m%d", p)) + "; if [ \"$SLOW\" = 1 ]; then " + over + "; fi"
				want = append(want, "m1", "m2", "m3")
			}
			for i := 1; i <= p; i++ {
				want = append(want, fmt.Sprintf("m%d", i))
			}
			wantErr = true
		}
	}
	r, err := runner.NewTaskRunner()
	if err != nil {
		return "infra: " + err.Error()
	}
	r.Stdout, r.Stderr, r.OutputFormat = io.Discard, io.Discard, output.FormatRaw
	if c.Rerun {
		first := make(chan error, 1)
		go func() { first <- r.Run(t) }()
		select {
		case err := <-first:
			if err != nil {
				return fmt.Sprintf("KIND:spurious-failure:the first run (nothing overruns) returned %v", err)
			}
		case <-time.After(time.Duration(c.TimeoutMs)*time.Millisecond*4 + 10*time.Second):
			return "KIND:not-terminated:the first run (nothing overruns) did not return"
		}
		os.Remove(trace)
		os.WriteFile(filepath.Join(dir, "slow"), nil, 0o644)
	}
	start := time.Now()
	done := make(chan error, 1)
	var stageSt *scheduler.Stage
	if c.Stage {
		stageSt = &scheduler.Stage{Name: "s", Task: t, Env: variables.FromMap(map[string]string{"STAGE_ENV": "1"})}
		g, err := scheduler.NewExecutionGraph(stageSt)
		if err != nil {
			return "infra: " + err.Error()
		}
		go func() { done <- scheduler.NewScheduler(r).Schedule(g) }()
	} else {
		go func() { done <- r.Run(t) }()
	}
	var runErr error
	limit := d + 10*time.Second
	select {
	case runErr = <-done:
	case <-time.After(limit):
		return fmt.Sprintf("KIND:not-terminated:Run still going %s after a %s timeout expired", limit, d)
	}
	elapsed := time.Since(start)
	b, _ := os.ReadFile(trace)
	got := strings.Fields(string(b))
	if strings.Join(got, " ") != strings.Join(want, " ") {
		if len(got) > len(want) {
			return fmt.Sprintf("KIND:later-command-ran:markers %v, expected %v (elapsed %s)", got, want, elapsed.Round(time.Millisecond))
		}
		return fmt.Sprintf("KIND:fast-command-affected:markers %v, expected %v (elapsed %s)", got, want, elapsed.Round(time.Millisecond))
	}
	// a failing before hook makes Run return an error; which result fields it sets is not prescribed
	if c.Stage {
		// the scheduler ran a copy of the task: the verdict is the run's error and the stage's status
		failed := stageSt.ReadStatus() == scheduler.StatusError
		if wantErr && (runErr == nil || !failed) {
			return fmt.Sprintf("KIND:overrun-not-reported:Schedule returned %v, stage status %d after the stage's command overran its timeout (allow_failure=%v)", runErr, stageSt.ReadStatus(), c.Allow)
		}
		if !wantErr && (runErr != nil || failed) {
			return fmt.Sprintf("KIND:spurious-failure:Schedule returned %v, stage status %d although every command finished within the timeout", runErr, stageSt.ReadStatus())
		}
		return ""
	}
	if wantErr && (runErr == nil || (!t.Errored && c.Position != "before")) {
		return fmt.Sprintf("KIND:overrun-not-reported:Run returned %v, Errored=%v after the command overran its timeout (allow_failure=%v)", runErr, t.Errored, c.Allow)
	}
	if !wantErr && (runErr != nil || t.Errored) {
		return fmt.Sprintf("KIND:spurious-failure:Run returned %v, Errored=%v although every command finished within the timeout (elapsed %s)", runErr, t.Errored, elapsed.Round(time.Millisecond))
	}
	return ""
}

func timeoutUnit(res *common.Result) {
	var idx int64
	distinct := map[string]bool{}
	do := func(c toCase) bool {
		idx++
		if !common.Mine(idx) {
			return false
		}
		res.Evaluations++
		distinct[fmt.Sprint(c.Shape, c.Position, c.Allow, c.Prior, c.Var2, c.Stage, c.Rerun)] = true
		if res.Evaluations%5 == 1 {
			res.AddSample(c)
		}
		d := runTimeout(c)
		if strings.HasPrefix(d, "infra:") {
			fmt.Fprintln(os.Stderr, d)
			os.Exit(2)
		}
		if d == "" {
			return false
		}
		// a timing-sensitive verdict is only believed if it fails every time (5 serial re-runs)
		for i := 0; i < 5; i++ {
			if runTimeout(c) == "" {
				res.Notes = append(res.Notes, fmt.Sprintf("flaky_timing: %+v failed once (%s) and passed on re-run", c, d))
				return false
			}
		}
		parts := strings.SplitN(d, ":", 3)
		return res.AddViolation(common.Violation{Property: "C13", Key: fmt.Sprintf("C13:%s|shape=%s|position=%s|allow=%v|prior=%v|var2=%v|stage=%v|rerun=%v|timeout=%dms", parts[1], c.Shape, c.Position, c.Allow, c.Prior, c.Var2, c.Stage, c.Rerun, c.TimeoutMs), Desc: fmt.Sprintf("%+v: %s", c, parts[2]), Config: c},
			map[string]interface{}{"harness": "taskrun", "mode": "plain", "property": "C13", "to": c})
	}
	timeouts := []int{100, 1000}
	if *common.Tier == "thorough" {
		timeouts = []int{100, 300, 1000}
	}
	if *common.Unit == "timeout-serial" {
		for _, ms := range []int{1000, 500} {
			if do(toCase{TimeoutMs: ms, Shape: "share"}) || do(toCase{TimeoutMs: ms, Shape: "share-before"}) || do(toCase{TimeoutMs: ms, Shape: "share-after"}) {
				break
			}
		}
		res.Nontrivial = int64(len(distinct)) + 1
		return
	}
	for _, ms := range timeouts {
		if do(toCase{TimeoutMs: ms, Shape: "fast"}) {
			return
		}
		for _, shape := range []string{"sleep", "busy", "trap"} {
			for _, pos := range []string{"1", "2", "3", "before", "after"} {
				for _, allow := range []bool{false, true} {
					if do(toCase{TimeoutMs: ms, Shape: shape, Position: pos, Allow: allow}) {
						return
					}
					// the task runs as a pipeline stage with an override
					if shape == "sleep" && do(toCase{TimeoutMs: ms, Shape: shape, Position: pos, Allow: allow, Stage: true}) {
						return
					}
					// the task object has already run once (within its timeout)
					if shape == "sleep" && do(toCase{TimeoutMs: ms, Shape: shape, Position: pos, Allow: allow, Rerun: true}) {
						return
					}
					// the overrun happens in the second variation only
					if shape == "sleep" && (pos == "1" || pos == "2" || pos == "3") && do(toCase{TimeoutMs: ms, Shape: shape, Position: pos, Allow: allow, Var2: true}) {
						return
					}
					// a tolerated failure of the preceding command must not change anything
					if allow && (pos == "2" || pos == "3" || pos == "after") && do(toCase{TimeoutMs: ms, Shape: shape, Position: pos, Allow: true, Prior: true}) {
						return
					}
				}
			}
		}
	}
	res.Nontrivial = int64(len(distinct))
}

// ---- process level (C07) ----

type cliCase struct {
	Targets []string `json:"targets"` // ok, fail, pok, pfail, unknown
	Status  int      `json:"status"`
	Via     string   `json:"via"`             // "" (root action) or "run"
	Flags   int      `json:"flags,omitempty"` // index into cliFlagSets
}

// cliFlagSets: global flags that must not change which targets run or the exit status. Entry 0 is the default.
var cliFlagSets = [][]string{
	{"--output", "raw"},
	{"--output", "raw", "--summary=false"},
	{"--output", "raw", "--quiet"},
	{"--output", "raw", "--debug"},
	{"--output", "prefixed"},
	{"--output", "cockpit"},
	{"--raw"},
	{"--quiet", "--summary=false"},
	{"--output", "raw", "RUNFLAG", "--summary=false"}, // the run command's own flag
}

func runCli(c cliCase) string {
	dir, err := os.MkdirTemp(".", "cli")
	if err != nil {
		return "infra: " + err.Error()
	}
	defer os.RemoveAll(dir)
	dir, _ = filepath.Abs(dir)
	trace := filepath.Join(dir, "trace")
	yaml := fmt.Sprintf(`tasks:
  ok:
    command: "echo ok >> %[1]s"
  ok2:
    command: "echo ok2 >> %[1]s"
  fail:
    command: "echo fail >> %[1]s; exit %[2]d"
  allow:
    allow_failure: true
    command:
      - "echo allow >> %[1]s; exit %[2]d"
      - "echo allow2 >> %[1]s"
  skip:
    condition: "exit 1"
    command: "echo skip >> %[1]s"
  slowok:
    command: "echo slowok >> %[1]s; sleep 0.3"
  latefail:
    command: "sleep 0.1; echo latefail >> %[1]s; exit %[2]d"
  okin:
    command: "echo okin >> %[1]s"
  failin:
    command: "echo failin >> %[1]s; exit %[2]d"
  slow1:
    command: "echo slow1 >> %[1]s.a; sleep 1"
  delay:
    command: "sleep 0.4; echo delay >> %[1]s.b"
pipelines:
  pconderr:
    - task: ok2
      name: only
      condition: /no/such/condition-binary
  pin:
    - task: okin
      name: s1
    - task: failin
      name: s2
      depends_on: [s1]
  pin2:
    - task: okin
      name: s1
    - task: failin
      name: s2
      depends_on: [s1]
  pinlate:
    - task: slow1
      name: a
    - task: failin
      name: b
  pshseq:
    - pipeline: pin
      name: first
      allow_failure: true
    - pipeline: pin
      name: second
      depends_on: [first]
  pshallow:
    - pipeline: pin2
      name: first
      allow_failure: true
    - pipeline: pin2
      name: second
      allow_failure: true
      depends_on: [first]
    - task: ok
      name: third
      depends_on: [second]
  pshlate:
    - pipeline: pinlate
      name: early
    - task: delay
      name: d
    - pipeline: pinlate
      name: late
      depends_on: [d]
  ppar:
    - task: slowok
      name: s1
    - task: latefail
      name: s2
  pallow:
    - task: ok2
      name: s1
    - task: fail
      name: s2
      allow_failure: true
      depends_on: [s1]
    - task: ok
      name: s3
      depends_on: [s2]
  pok:
    - task: ok2
      name: s1
  pfail:
    - task: ok2
      name: s1
    - task: fail
      name: s2
      depends_on: [s1]
`, trace, c.Status)
	os.WriteFile(filepath.Join(dir, "tasks.yaml"), []byte(yaml), 0o644)
	args := []string{"-c", filepath.Join(dir, "tasks.yaml")}
	var runFlags []string
	for i, f := range cliFlagSets[c.Flags] {
		if f == "RUNFLAG" {
			runFlags = cliFlagSets[c.Flags][i+1:]
			break
		}
		args = append(args, f)
	}
	if c.Via == "run" {
		args = append(args, "run")
		args = append(args, runFlags...)
	}
	if c.Via == "run-task" {
		args = append(args, "run")
		args = append(args, runFlags...)
		args = append(args, "task")
	}
	args = append(args, c.Targets...)
	cmd := exec.Command(os.Getenv("VERIF_TASKCTL"), args...)
	cmd.Dir = dir
	cmd.Env = []string{"HOME=" + dir, "PATH=/usr/bin:/bin"}
	out, err, hung := common.RunWithTimeout(cmd, 60*time.Second)
	if hung {
		return "HANG: the process did not exit within 60 s: " + common.HangSummary(string(out))
	}
	code := 0
	if err != nil {
		if ee, ok := err.(*exec.ExitError); ok {
			code = ee.ExitCode()
		} else {
			return "infra: " + err.Error()
		}
	}
	text := string(out)
	if strings.Contains(text, "panic:") || strings.Contains(text, "fatal error:") || code < 0 {
		return "process crashed: " + text
	}
	// model
	var want []string
	allOK := true
	for _, t := range c.Targets {
		switch t {
		case "ok":
			want = append(want, "ok")
		case "pok":
			want = append(want, "ok2")
		case "allow": // failures were allowed: the target succeeded
			want = append(want, "allow", "allow2")
		case "skip": // skipped by its condition: nothing ran, the target did not fail
		case "ppar": // two independent stages: one fails, the other one finishes later and succeeds - the pipeline failed
			want = append(want, "slowok", "latefail")
			allOK = false
		case "pallow": // the failing stage allows failure: its dependant runs, the pipeline succeeded
			want = append(want, "ok2", "fail", "ok")
		case "pconderr": // the stage's condition cannot be evaluated: the stage is in error, the run is cancelled - the target did not succeed
			allOK = false
		case "pshseq": // one pipeline included by two stages, one after the other: its stages run once, and its failure fails the stage that does not allow it
			want = append(want, "okin", "failin")
			allOK = false
		case "pshallow": // both including stages allow the failure: the dependant runs, the pipeline succeeded
			want = append(want, "okin", "failin", "ok")
		case "pshlate": // the second including stage joins while the shared pipeline is in flight and has already failed
			// (the three commands are independent and write to files of their own: appends of concurrent commands could interleave)
			want = append(want, "failin", "+slow1", "+delay")
			allOK = false
		case "fail":
			want = append(want, "fail")
			allOK = false
		case "pfail":
			want = append(want, "ok2", "fail")
			allOK = false
		case "unknown":
			allOK = false
		}
		if !allOK {
			break
		}
	}
	b, _ := os.ReadFile(trace)
	got := strings.Fields(string(b))
	for i := 0; i+1 < len(got); i++ { // the two stages of ppar are independent: their relative order is not prescribed
		if got[i] == "latefail" && got[i+1] == "slowok" {
			got[i], got[i+1] = got[i+1], got[i]
		}
	}
	// C07 says nothing about how often the stages of a pipeline included by two stages run (C03 does: at most
	// once, decided on the scheduler harness): a repeated "okin failin" block is folded before the comparison
	for i := 0; i+3 < len(got); {
		if got[i] == "okin" && got[i+1] == "failin" && got[i+2] == "okin" && got[i+3] == "failin" {
			got = append(got[:i], got[i+2:]...)
			continue
		}
		i++
	}
	for _, f := range []string{".a", ".b"} {
		if b, err := os.ReadFile(trace + f); err == nil {
			for _, t := range strings.Fields(string(b)) {
				got = append(got, "+"+t)
			}
		}
	}
	for i := 0; i+1 < len(got); { // the same for the stages of pshlate's shared pipeline
		if got[i] == got[i+1] && (got[i] == "failin" || got[i] == "+slow1") {
			got = append(got[:i], got[i+1:]...)
			continue
		}
		i++
	}
	if strings.Join(got, " ") != strings.Join(want, " ") {
		return fmt.Sprintf("trace %v, model %v (exit status %d)", got, want, code)
	}
	if (code == 0) != allOK {
		return fmt.Sprintf("exit status %d although all-targets-succeeded=%v", code, allOK)
	}
	return ""
}

func cliUnit(res *common.Result, maxLen int, statuses []int, alphabet ...string) {
	prop := "C07"
	if *common.Prop == "C02" { // the same invocations judged for "the run reports an error" (C02)
		prop = "C02"
	}
	flagLen := maxLen - 1 // non-default flag sets: target sequences one shorter than the maximum
	if len(alphabet) == 0 {
		alphabet = []string{"ok", "fail", "pok", "pfail", "unknown", "allow", "skip", "pallow", "ppar"}
	}
	var idx int64
	distinct := map[string]bool{}
	var rec func(cur []string) bool
	rec = func(cur []string) bool {
		// A pipeline listed twice is outside the statement (it says nothing about repeated
		// targets; today a second occurrence finds its stages already done and runs nothing):
		// such sequences are not enumerated.
		npok, npfail, npallow, nppar := 0, 0, 0, 0
		nsh := map[string]int{}
		for _, t := range cur {
			if strings.HasPrefix(t, "psh") {
				if nsh[t]++; nsh[t] > 1 {
					return false
				}
			}
			if t == "pok" {
				npok++
			}
			if t == "pfail" {
				npfail++
			}
			if t == "pallow" {
				npallow++
			}
			if t == "ppar" {
				nppar++
			}
		}
		if npok > 1 || npfail > 1 || npallow > 1 || nppar > 1 {
			return false
		}
		if len(cur) > 0 {
			vias := []string{"", "run"}
			onlyTasks := true
			for _, t := range cur {
				if t == "pok" || t == "pfail" || t == "pallow" || t == "ppar" || strings.HasPrefix(t, "psh") || t == "pconderr" {
					onlyTasks = false
				}
			}
			if onlyTasks {
				vias = append(vias, "run-task") // `taskctl run task T...` accepts tasks only
			}
			for _, via := range vias {
				for fl := range cliFlagSets {
					if fl > 0 && len(cur) > flagLen {
						continue
					}
					if len(cliFlagSets[fl]) > 2 && cliFlagSets[fl][2] == "RUNFLAG" && via == "" {
						continue
					}
					for _, s := range statuses {
						hasFail := false
						for _, t := range cur {
							if t == "fail" || t == "pfail" || strings.HasPrefix(t, "psh") || t == "pconderr" {
								hasFail = true
							}
						}
						if !hasFail && s != statuses[0] {
							continue
						}
						idx++
						if !common.Mine(idx) {
							continue
						}
						c := cliCase{Targets: append([]string{}, cur...), Status: s, Via: via, Flags: fl}
						res.Evaluations++
						distinct[strings.Join(cur, ",")+fmt.Sprint(fl)] = true
						if res.Evaluations%37 == 1 {
							res.AddSample(c)
						}
						d := runCli(c)
						if strings.HasPrefix(d, "HANG:") {
							// a hang of a real process may depend on timing: it is reported as a violation only if the
							// very same invocation hangs again; otherwise it is recorded (Engine A decides such cases)
							if d2 := runCli(c); !strings.HasPrefix(d2, "HANG:") {
								res.Notes = append(res.Notes, fmt.Sprintf("intermittent_hang: taskctl %v %s %v hung once and finished on re-run: %s", cliFlagSets[c.Flags], c.Via, c.Targets, d))
								d = d2
							}
						}
						if d != "" {
							if strings.HasPrefix(d, "infra:") {
								fmt.Fprintln(os.Stderr, d)
								os.Exit(2)
							}
							if res.AddViolation(common.Violation{Property: prop, Key: fmt.Sprintf("%s:cli|%v|%s|%d|%v", prop, c.Targets, c.Via, c.Status, cliFlagSets[c.Flags]), Desc: fmt.Sprintf("taskctl %v %s %v: %s", cliFlagSets[c.Flags], c.Via, c.Targets, d), Config: c},
								map[string]interface{}{"harness": "taskrun", "mode": "plain", "property": prop, "needs_taskctl": true, "cli": c}) {
								return true
							}
						}
					}
				}
			}
		}
		if len(cur) == maxLen {
			return false
		}
		for _, a := range alphabet {
			if rec(append(cur, a)) {
				return true
			}
		}
		return false
	}
	rec(nil)
	res.Nontrivial = int64(len(distinct))
}
