//go:build verif

package main

import (
	"bytes"
	"encoding/json"
	"fmt"
	"io"
	"os"
	"os/exec"
	"strings"
	"sync"
	"time"

	"github.com/sirupsen/logrus"

	"github.com/taskctl/taskctl/internal/vh/common"
	"github.com/taskctl/taskctl/pkg/output"
	"github.com/taskctl/taskctl/pkg/runner"
	"github.com/taskctl/taskctl/pkg/scheduler"
	"github.com/taskctl/taskctl/pkg/task"
)

// ---- C12, process level: real tasks with real `sleep` processes in a child process; the point at
// which Cancel is injected is enumerated (a marker written by a command triggers it), not timed ----

type cpCase struct {
	InFlight    int    `json:"in_flight"` // tasks running `sleep` when Cancel is injected
	Waiting     int    `json:"waiting"`   // stages that depend on them (pipeline mode)
	At          string `json:"at"`        // before (during the before hook), cmd (during a command), between (a fast command between two long ones), after (all tasks finished), afterhook (during the task's after hook), start (before anything runs)
	Via         string `json:"via"`       // runner | scheduler
	Twice       bool   `json:"twice"`
	Timeout     bool   `json:"timeout,omitempty"`     // the tasks carry a (long) timeout of their own
	Allow       bool   `json:"allow,omitempty"`       // the tasks have allow_failure: true (tolerates failing commands; an interrupted command is not a tolerated failure)
	Interactive bool   `json:"interactive,omitempty"` // the tasks are `interactive: true` and the process's stdin is an open pipe nobody writes to
	ID          int    `json:"id"`
}

type cpReport struct {
	Markers   []string          `json:"markers"` // in order, "CANCEL-RETURNED" inserted when Cancel returned
	Runs      map[string]string `json:"runs"`    // task -> "nil"/"err" + errored flag
	Sched     string            `json:"sched"`
	CancelRet bool              `json:"cancel_returned"`
}

type markerWriter struct {
	mu      sync.Mutex
	buf     []byte
	markers []string
	trigger string
	need    int
	seen    int
	fire    func()
	fired   bool
}

func (w *markerWriter) Write(p []byte) (int, error) {
	w.mu.Lock()
	w.buf = append(w.buf, p...)
	// The tasks share this writer and a command's text and its line terminator may arrive in separate
	// calls, so lines of different tasks can run into each other: the trigger is counted as a token in
	// the byte stream, not per line.
	w.seen += bytes.Count(p, []byte(w.trigger))
	var fire bool
	if w.trigger != "" && w.seen >= w.need && !w.fired {
		w.fired, fire = true, true
	}
	for {
		i := bytes.IndexByte(w.buf, '\n')
		if i < 0 {
			break
		}
		line := string(w.buf[:i])
		w.buf = w.buf[i+1:]
		if line != "" {
			w.markers = append(w.markers, line)
		}
	}
	w.mu.Unlock()
	if fire {
		go w.fire()
	}
	return len(p), nil
}

func (w *markerWriter) add(m string) {
	w.mu.Lock()
	w.markers = append(w.markers, m)
	w.mu.Unlock()
}

func cancelChild() {
	var c cpCase
	json.Unmarshal([]byte(os.Getenv("VERIF_CHILD")), &c)
	logrus.SetOutput(io.Discard)
	sleep := fmt.Sprintf("sleep 60.%04d", c.ID)
	r, _ := runner.NewTaskRunner()
	r.OutputFormat, r.Stderr = output.FormatRaw, io.Discard
	w := &markerWriter{}
	r.Stdout = w
	rep := cpReport{Runs: map[string]string{}}
	var sd *scheduler.Scheduler
	done := make(chan struct{})
	cancel := func() {
		n := 1
		if c.Twice {
			n = 2
		}
		fmt.Fprintln(os.Stderr, "CANCEL-CALLED")
		for i := 0; i < n; i++ {
			if c.Via == "scheduler" && sd != nil {
				sd.Cancel()
			} else {
				r.Cancel()
			}
		}
		w.add("CANCEL-RETURNED")
		rep.CancelRet = true
		close(done)
	}
	w.fire = cancel
	var tasks []*task.Task
	for i := 0; i < c.InFlight; i++ {
		t := task.NewTask()
		t.Name = fmt.Sprintf("t%d", i)
		if c.Timeout {
			d := 50 * time.Second
			t.Timeout = &d
		}
		t.Interactive = c.Interactive
		t.AllowFailure = c.Allow
		switch c.At {
		case "before":
			t.Before = []string{fmt.Sprintf("echo %s.b.TRIGGER; %s", t.Name, sleep)}
			t.Commands = []string{fmt.Sprintf("echo %s.c1", t.Name)}
		case "afterhook": // Cancel arrives while the task's after hook is running
			t.Commands = []string{fmt.Sprintf("echo %s.c1", t.Name)}
			t.After = []string{fmt.Sprintf("echo %s.a.TRIGGER; %s", t.Name, sleep)}
		case "between":
			t.Commands = []string{fmt.Sprintf("echo %s.c1", t.Name), fmt.Sprintf("echo %s.fast.TRIGGER", t.Name), fmt.Sprintf("echo %s.c3; %s", t.Name, sleep)}
		default: // cmd, after, start
			t.Commands = []string{fmt.Sprintf("echo %s.c1.TRIGGER; %s", t.Name, sleep), fmt.Sprintf("echo %s.c2", t.Name)}
			if c.At == "after" {
				t.Commands = []string{fmt.Sprintf("echo %s.c1.TRIGGER", t.Name)}
			}
		}
		tasks = append(tasks, t)
	}
	w.trigger, w.need = "TRIGGER", c.InFlight
	if c.At == "start" || c.InFlight == 0 {
		cancel()
	}
	var mu sync.Mutex
	record := func(t *task.Task, err error) {
		mu.Lock()
		rep.Runs[t.Name] = fmt.Sprintf("%s errored=%v", map[bool]string{true: "nil", false: "err"}[err == nil], t.Errored)
		mu.Unlock()
	}
	if c.Via == "scheduler" {
		var stages []*scheduler.Stage
		var names []string
		for _, t := range tasks {
			stages = append(stages, &scheduler.Stage{Name: t.Name, Task: t})
			names = append(names, t.Name)
		}
		for i := 0; i < c.Waiting; i++ {
			t := task.FromCommands(fmt.Sprintf("echo w%d.c1", i))
			t.Name = fmt.Sprintf("w%d", i)
			tasks = append(tasks, t)
			stages = append(stages, &scheduler.Stage{Name: t.Name, Task: t, DependsOn: names})
		}
		g, err := scheduler.NewExecutionGraph(stages...)
		if err != nil {
			fmt.Println("BUILDERR", err)
			os.Exit(3)
		}
		sd = scheduler.NewScheduler(r)
		err = sd.Schedule(g)
		rep.Sched = map[bool]string{true: "nil", false: "err"}[err == nil]
		for _, st := range stages {
			rep.Runs[st.Name] = fmt.Sprintf("status=%d errored=%v", st.ReadStatus(), st.Task.Errored)
		}
	} else {
		var wg sync.WaitGroup
		for _, t := range tasks {
			wg.Add(1)
			go func(t *task.Task) {
				defer wg.Done()
				record(t, r.Run(t))
			}(t)
		}
		wg.Wait()
	}
	if c.At == "after" || c.InFlight > 0 {
		select {
		case <-done:
		case <-time.After(15 * time.Second):
		}
	}
	// a run started after cancellation completed must be refused
	late := task.FromCommands("echo late.c1")
	late.Name = "late"
	record(late, r.Run(late))
	w.mu.Lock()
	rep.Markers = w.markers
	w.mu.Unlock()
	b, _ := json.Marshal(rep)
	fmt.Println("REPORT " + string(b))
}

func runCancelProc(c cpCase) string {
	spec, _ := json.Marshal(c)
	self, _ := os.Executable()
	cmd := exec.Command(self)
	cmd.Env = append(os.Environ(), "VERIF_CHILD="+string(spec))
	var out, errb bytes.Buffer
	cmd.Stdout, cmd.Stderr = &out, &errb
	if c.Interactive {
		// a terminal nobody types on: reads block for ever
		pr, pw, err := os.Pipe()
		if err != nil {
			return "infra: " + err.Error()
		}
		cmd.Stdin = pr
		defer pw.Close()
		defer pr.Close()
	}
	if err := cmd.Start(); err != nil {
		return "infra: " + err.Error()
	}
	done := make(chan error, 1)
	go func() { done <- cmd.Wait() }()
	tag := fmt.Sprintf("sleep 60.%04d", c.ID)
	cleanup := func() { exec.Command("pkill", "-f", tag).Run() }
	select {
	case <-done:
	case <-time.After(40 * time.Second):
		cmd.Process.Kill()
		cleanup()
		if !strings.Contains(errb.String(), "CANCEL-CALLED") {
			// the harness never reached its injection point: nothing was cancelled, nothing to judge
			return "NOTJUDGED:cancellation was not injected within 40 s: " + firstFew(out.String())
		}
		return "KIND:process-hangs:the process was still running 40 s after start (Cancel / Schedule / Run did not return); a normal case takes < 3 s"
	}
	text := out.String() + errb.String()
	if strings.Contains(text, "panic:") || strings.Contains(text, "fatal error:") {
		cleanup()
		return "KIND:process-crashes:" + firstFew(text)
	}
	i := strings.Index(out.String(), "REPORT ")
	if i < 0 {
		cleanup()
		return "KIND:process-crashes:no report: " + firstFew(text)
	}
	var rep cpReport
	json.Unmarshal([]byte(strings.TrimSpace(out.String()[i+7:])), &rep)
	// surviving sleeps?
	time.Sleep(300 * time.Millisecond)
	if err := exec.Command("pgrep", "-f", tag).Run(); err == nil {
		cleanup()
		return "KIND:command-survives-cancel:a `" + tag + "` process is still alive after the run was cancelled and the process exited"
	}
	after := false
	for _, m := range rep.Markers {
		if m == "CANCEL-RETURNED" {
			after = true
			continue
		}
		if after {
			return fmt.Sprintf("KIND:command-after-cancel:command %q started after Cancel had returned (markers %v)", m, rep.Markers)
		}
	}
	if !rep.CancelRet {
		return "KIND:cancel-not-injected:harness did not reach the injection point: " + fmt.Sprint(rep.Markers)
	}
	for name, res := range rep.Runs {
		interrupted := (c.At != "after" && c.At != "afterhook") || name == "late" || strings.HasPrefix(name, "w") // a task whose commands all finished is not "interrupted" by a cancel during its after hook
		if !interrupted {
			continue
		}
		if c.Via == "scheduler" && name != "late" {
			if strings.HasPrefix(res, "status=3") { // StatusDone
				return fmt.Sprintf("KIND:interrupted-task-reports-success:stage %s is reported done although the run was cancelled before it finished (%s)", name, res)
			}
			continue
		}
		if strings.HasPrefix(res, "nil") {
			return fmt.Sprintf("KIND:interrupted-task-reports-success:Run(%s) returned nil although it was interrupted / started after cancellation (%s)", name, res)
		}
	}
	return ""
}

func firstFew(s string) string {
	ls := strings.Split(strings.TrimSpace(s), "\n")
	if len(ls) > 6 {
		ls = ls[:6]
	}
	return strings.Join(ls, " | ")
}

func cancelProcUnit(res *common.Result) {
	var idx int64
	distinct := map[string]bool{}
	do := func(c cpCase) bool {
		idx++
		c.ID = int(idx)
		if !common.Mine(idx) {
			return false
		}
		res.Evaluations++
		distinct[fmt.Sprint(c.InFlight, c.Waiting, c.At, c.Via, c.Twice, c.Timeout, c.Interactive, c.Allow)] = true
		if res.Evaluations%7 == 1 {
			res.AddSample(c)
		}
		d := runCancelProc(c)
		if strings.HasPrefix(d, "infra:") {
			fmt.Fprintln(os.Stderr, d)
			os.Exit(2)
		}
		if d == "" {
			return false
		}
		if strings.HasPrefix(d, "NOTJUDGED:") {
			res.Notes = append(res.Notes, fmt.Sprintf("%+v: %s", c, d))
			res.Exhaustive, res.Capped = false, "a case could not be set up and was not judged"
			return false
		}
		parts := strings.SplitN(d, ":", 3)
		return res.AddViolation(common.Violation{Property: "C12", Key: fmt.Sprintf("C12:%s|inflight=%d|waiting=%d|at=%s|via=%s|twice=%v|timeout=%v|interactive=%v|allow=%v", parts[1], c.InFlight, c.Waiting, c.At, c.Via, c.Twice, c.Timeout, c.Interactive, c.Allow), Desc: fmt.Sprintf("%+v: %s", c, parts[2]), Config: c},
			map[string]interface{}{"harness": "taskrun", "mode": "plain", "property": "C12", "cp": c})
	}
	maxIn := 2
	if *common.Tier == "thorough" {
		maxIn = 4
	}
	for n := 0; n <= maxIn; n++ {
		for _, at := range []string{"start", "before", "cmd", "between", "after", "afterhook"} {
			if n == 0 && at != "start" {
				continue
			}
			for _, via := range []string{"runner", "scheduler"} {
				ws := []int{0}
				if via == "scheduler" {
					ws = []int{0, 1, 3}
				}
				for _, w := range ws {
					for _, twice := range []bool{false, true} {
						if twice && (n > 1 && at != "cmd") {
							continue
						}
						if do(cpCase{InFlight: n, Waiting: w, At: at, Via: via, Twice: twice}) {
							return
						}
						if n > 0 && n <= 2 && !twice && w == 0 && at == "cmd" {
							if do(cpCase{InFlight: n, Waiting: w, At: at, Via: via, Interactive: true}) {
								return
							}
						}
						if n > 0 && !twice && w <= 1 && at != "start" && at != "after" {
							if do(cpCase{InFlight: n, Waiting: w, At: at, Via: via, Timeout: true}) {
								return
							}
							// allow_failure, alone and together with a timeout
							if n <= 2 && (do(cpCase{InFlight: n, Waiting: w, At: at, Via: via, Allow: true}) || do(cpCase{InFlight: n, Waiting: w, At: at, Via: via, Allow: true, Timeout: true})) {
								return
							}
						}
					}
				}
			}
		}
	}
	res.Nontrivial = int64(len(distinct))
}
