//go:build verif

package main

import (
	"bytes"
	"fmt"
	"io"
	"os"
	"path/filepath"
	"regexp"
	"strings"
	"sync"
	"time"

	"github.com/taskctl/taskctl/internal/vh/common"
	"github.com/taskctl/taskctl/pkg/output"
	"github.com/taskctl/taskctl/pkg/runner"
	"github.com/taskctl/taskctl/pkg/scheduler"
	"github.com/taskctl/taskctl/pkg/task"
)

// ---- C06/C07 over histories: the same task run several times, the way `taskctl watch` does it ----
//
// The watcher runs its task object once at start-up and a struct copy of it (taken after that run)
// for every file event. What a command does may differ from run to run (the user fixes the build):
// every scripted element takes its exit status from a file the harness rewrites between runs. Each
// run of the history must behave like a first run of the task with that run's statuses: state left
// on the task by an earlier run must not leak into a later one.

type histStep struct {
	Status []int `json:"status"`
	Before int   `json:"before,omitempty"` // exit status of the before hook in this run
	Cond   int   `json:"cond,omitempty"`   // exit status of the condition in this run (the task is skipped in this run)
}

type histCase struct {
	K          int        `json:"k"`
	Variations int        `json:"variations"`
	Allow      bool       `json:"allow"`
	Before     bool       `json:"before"`
	After      bool       `json:"after"`
	Cond       bool       `json:"cond"`
	Copy       bool       `json:"copy"` // later runs use a struct copy (the watcher's way) instead of the same object
	Steps      []histStep `json:"steps"`
}

func (c histCase) String() string {
	return fmt.Sprintf("k=%d variations=%d allow=%v before=%v after=%v cond=%v copy=%v steps=%v", c.K, c.Variations, c.Allow, c.Before, c.After, c.Cond, c.Copy, c.Steps)
}

func (c histCase) stepCase(s histStep) TaskCase {
	tc := TaskCase{Status: s.Status, Variations: c.Variations, Allow: c.Allow}
	if c.Before {
		tc.Before = "ok"
		if s.Before != 0 {
			tc.Before = "fail"
		}
	}
	if c.After {
		tc.After = "ok"
	}
	if c.Cond {
		tc.Cond = "true"
		if s.Cond != 0 {
			tc.Cond = "false"
		}
	}
	return tc
}

func runHistory(c histCase) (kind, desc string) {
	dir, err := os.MkdirTemp(".", "hist")
	if err != nil {
		return "infra", err.Error()
	}
	defer os.RemoveAll(dir)
	dir, _ = filepath.Abs(dir)
	t := task.NewTask()
	t.Name = "t"
	t.AllowFailure = c.Allow
	for i := 0; i < c.K; i++ {
		t.Commands = append(t.Commands, fmt.Sprintf("echo C%d.$V; exit $(cat %s/c%d)", i+1, dir, i+1))
	}
	for v := 1; v <= c.Variations; v++ {
		t.Variations = append(t.Variations, map[string]string{"V": fmt.Sprintf("v%d", v)})
	}
	if c.Before {
		t.Before = []string{fmt.Sprintf("echo B; exit $(cat %s/b)", dir)}
	}
	if c.After {
		t.After = []string{"echo A"}
	}
	if c.Cond {
		t.Condition = fmt.Sprintf("echo K; exit $(cat %s/k)", dir)
	}
	var buf bytes.Buffer
	r, err := runner.NewTaskRunner()
	if err != nil {
		return "infra", err.Error()
	}
	r.Stdout, r.Stderr, r.OutputFormat = &buf, io.Discard, output.FormatRaw
	for n, s := range c.Steps {
		for i, st := range s.Status {
			os.WriteFile(filepath.Join(dir, fmt.Sprintf("c%d", i+1)), []byte(fmt.Sprint(st)), 0o644)
		}
		os.WriteFile(filepath.Join(dir, "b"), []byte(fmt.Sprint(s.Before)), 0o644)
		os.WriteFile(filepath.Join(dir, "k"), []byte(fmt.Sprint(s.Cond)), 0o644)
		buf.Reset()
		var runErr error
		ran := t
		if n > 0 && c.Copy {
			tc := *t
			ran = &tc
		}
		runErr = r.Run(ran)
		var toks []string
		for _, l := range strings.Split(buf.String(), "\n") {
			if l != "" {
				toks = append(toks, l)
			}
		}
		e := model(c.stepCase(s))
		if got, want := strings.Join(toks, " "), strings.Join(e.Tokens, " "); got != want {
			return "order", fmt.Sprintf("run %d of the history: command trace %q, a first run with these statuses gives %q", n+1, got, want)
		}
		if (runErr != nil) != e.Err {
			return "error", fmt.Sprintf("run %d of the history: Run returned %v, a first run with these statuses reports error=%v", n+1, runErr, e.Err)
		}
		// the result fields of the task object that ran describe THIS run
		if ran.Skipped != e.Skipped {
			return "skipped", fmt.Sprintf("run %d of the history: Skipped=%v after the run, a first run with these statuses gives %v", n+1, ran.Skipped, e.Skipped)
		}
		if e.ExitCode != -2 {
			if ran.Errored != e.Errored {
				return "errored", fmt.Sprintf("run %d of the history: Errored=%v after the run, a first run with these statuses gives %v", n+1, ran.Errored, e.Errored)
			}
			if int(ran.ExitCode) != e.ExitCode {
				return "exitcode", fmt.Sprintf("run %d of the history: ExitCode=%d after the run, a first run with these statuses gives %d", n+1, ran.ExitCode, e.ExitCode)
			}
		}
	}
	return "", ""
}

func historyUnit(res *common.Result, target string, kmax, lmax int) {
	var idx int64
	distinct := map[string]bool{}
	do := func(c histCase) bool {
		idx++
		if !common.Mine(idx) {
			return false
		}
		res.Evaluations++
		distinct[fmt.Sprint(c.Steps, c.Allow)] = true
		if res.Evaluations%97 == 1 {
			res.AddSample(c.String())
		}
		kind, d := runHistory(c)
		if kind == "infra" {
			fmt.Fprintln(os.Stderr, d)
			os.Exit(2)
		}
		if kind == "" || (target == "C07" && kind != "error" && kind != "errored" && kind != "exitcode") || (target != "C07" && (kind == "errored" || kind == "exitcode")) {
			return false
		}
		return res.AddViolation(common.Violation{Property: target, Key: fmt.Sprintf("%s:history-%s|%s", target, kind, c), Desc: c.String() + ": " + d, Config: c},
			map[string]interface{}{"harness": "taskrun", "mode": "plain", "property": target, "hist": c})
	}
	for k := 1; k <= kmax; k++ {
		var vecs [][]int
		forStatus(k, []int{0, 1}, func(st []int) { vecs = append(vecs, st) })
		for l := 2; l <= lmax; l++ {
			// every sequence of l status vectors
			n := 1
			for i := 0; i < l; i++ {
				n *= len(vecs)
			}
			for code := 0; code < n; code++ {
				var steps []histStep
				x := code
				for i := 0; i < l; i++ {
					steps = append(steps, histStep{Status: vecs[x%len(vecs)]})
					x /= len(vecs)
				}
				for _, allow := range []bool{false, true} {
					for _, hooks := range []int{0, 1, 2, 3} {
						for _, v := range []int{0, 2} {
							for _, cp := range []bool{true, false} {
								c := histCase{K: k, Variations: v, Allow: allow, Before: hooks&1 != 0, After: hooks&2 != 0, Cond: hooks == 3, Copy: cp, Steps: steps}
								if do(c) {
									return
								}
								if c.Cond && l == 2 { // the condition is not met in the first run only, and in the second run only
									c.Steps = []histStep{{Status: steps[0].Status, Cond: 1}, steps[1]}
									if do(c) {
										return
									}
									c.Steps = []histStep{steps[0], {Status: steps[1].Status, Cond: 1}}
									if do(c) {
										return
									}
									c.Steps = steps
								}
								if c.Before && l == 2 { // the before hook fails in the first run only
									c.Steps = []histStep{{Status: steps[0].Status, Before: 3}, steps[1]}
									if do(c) {
										return
									}
								}
							}
						}
					}
				}
			}
		}
	}
	res.Nontrivial = int64(len(distinct))
}

// ---- C02 on the real runner: how a real task fails must not matter to failure propagation ----
//
// Pipeline a -> b plus an independent c; a's task is drawn from the task grammar (commands failing at
// any position, allow_failure, before/after hooks succeeding or failing, condition, variations), b and
// c are plain succeeding tasks. Whatever makes the reference model of the task report an error must
// cancel b, leave c alone and make Schedule report an error; a skipped or succeeding a blocks nothing.

// lockedBuffer: stages a and c run concurrently and write to the runner's one stdout.
type lockedBuffer struct {
	mu sync.Mutex
	b  bytes.Buffer
}

func (l *lockedBuffer) Write(p []byte) (int, error) {
	l.mu.Lock()
	defer l.mu.Unlock()
	return l.b.Write(p)
}

func (l *lockedBuffer) String() string {
	l.mu.Lock()
	defer l.mu.Unlock()
	return l.b.String()
}

func runPipe3(c TaskCase) (kind, desc string) {
	var buf lockedBuffer
	r, err := runner.NewTaskRunner()
	if err != nil {
		return "infra", err.Error()
	}
	r.Stdout, r.Stderr, r.OutputFormat = &buf, io.Discard, output.FormatRaw
	ta := buildTask(c)
	ta.Name = "a"
	tb := task.FromCommands("echo B-RAN")
	tb.Name = "b"
	tc := task.FromCommands("echo C-RAN")
	tc.Name = "c"
	sa := &scheduler.Stage{Name: "a", Task: ta}
	sb := &scheduler.Stage{Name: "b", Task: tb, DependsOn: []string{"a"}}
	sc := &scheduler.Stage{Name: "c", Task: tc}
	g, err := scheduler.NewExecutionGraph(sa, sb, sc)
	if err != nil {
		return "infra", err.Error()
	}
	schedErr := scheduler.NewScheduler(r).Schedule(g)
	e := model(c)
	out := buf.String()
	bRan, cRan := strings.Contains(out, "B-RAN"), strings.Contains(out, "C-RAN")
	st := func(s *scheduler.Stage) int32 { return s.ReadStatus() }
	switch {
	case e.Err:
		if st(sa) != scheduler.StatusError || st(sb) != scheduler.StatusCanceled || bRan {
			return "propagation", fmt.Sprintf("task a failed (model) but stage a has status %d, its dependant b status %d (ran=%v)", st(sa), st(sb), bRan)
		}
		if schedErr == nil {
			return "error-mismatch", "stage a failed without allow_failure but Schedule returned nil"
		}
	case e.Skipped:
		// a task skipped by its own condition: the run reports no error and nothing is blocked
		if schedErr != nil || !bRan || st(sb) != scheduler.StatusDone {
			return "propagation", fmt.Sprintf("task a was skipped by its condition but Schedule returned %v, b status %d (ran=%v)", schedErr, st(sb), bRan)
		}
	default:
		if schedErr != nil || st(sa) != scheduler.StatusDone || st(sb) != scheduler.StatusDone || !bRan {
			return "propagation", fmt.Sprintf("task a succeeded (model) but Schedule returned %v, stage a status %d, b status %d (ran=%v)", schedErr, st(sa), st(sb), bRan)
		}
	}
	if !cRan || st(sc) != scheduler.StatusDone {
		return "independent-stage", fmt.Sprintf("the independent stage c has status %d (ran=%v)", st(sc), cRan)
	}
	return "", ""
}

func pipe3Unit(res *common.Result, target string) {
	var idx int64
	distinct := map[string]bool{}
	for k := 1; k <= 2; k++ {
		var vecs [][]int
		forStatus(k, []int{0, 1}, func(st []int) { vecs = append(vecs, st) })
		for _, st := range vecs {
			for _, v := range []int{0, 2} {
				for _, allow := range []bool{false, true} {
					for _, b := range []string{"", "ok", "fail"} {
						for _, a := range []string{"", "ok", "fail"} {
							for _, cd := range []string{"", "true", "false"} {
								c := TaskCase{Status: st, Variations: v, Allow: allow, Before: b, After: a, Cond: cd}
								idx++
								if !common.Mine(idx) {
									continue
								}
								res.Evaluations++
								if res.Evaluations%61 == 1 {
									res.AddSample(c.String())
								}
								kind, d := runPipe3(c)
								if kind == "infra" {
									fmt.Fprintln(os.Stderr, d)
									os.Exit(2)
								}
								e := model(c)
								distinct[fmt.Sprint(e.Err, e.Skipped, st, b, a)] = true
								if kind != "" && res.AddViolation(common.Violation{Property: target, Key: fmt.Sprintf("%s:real-%s|%s", target, kind, c), Desc: c.String() + ": " + d, Config: c},
									map[string]interface{}{"harness": "taskrun", "mode": "plain", "property": target, "pipe3": c}) {
									return
								}
							}
						}
					}
				}
			}
		}
	}
	res.Nontrivial = int64(len(distinct))
}

// ---- C19: a failing command's output reaches the stream and the task log in full, unterminated tail included ----

type tailCase struct {
	Shape  string `json:"shape"`  // fail, allow-last, allow-middle, stderr-fail, timeout
	Format string `json:"format"` // raw, prefixed, cockpit
}

var tailPrefixRe = regexp.MustCompile(`(?m)^.*?tt\x1b\[0m: |^.*?tt: `)

func runTail(c tailCase) string {
	var outBuf, errBuf lockedBuffer
	r, err := runner.NewTaskRunner()
	if err != nil {
		return "infra: " + err.Error()
	}
	r.Stdout, r.Stderr, r.OutputFormat = &outBuf, &errBuf, c.Format
	t := task.NewTask()
	t.Name = "tt"
	wantOut, wantErr, wantFail := "", "", true
	wantStream := "" // what the display stream carries: the runner sends both of a task's streams through one decorator
	switch c.Shape {
	case "fail":
		t.Commands = []string{"printf 'line\\nfatal: no newline'; exit 3"}
		wantOut = "line\nfatal: no newline"
	case "allow-last":
		t.AllowFailure, wantFail = true, false
		t.Commands = []string{"printf 'a\\n'", "printf 'tail'; exit 3"}
		wantOut = "a\ntail"
	case "allow-middle":
		t.AllowFailure, wantFail = true, false
		t.Commands = []string{"printf 'tail1'; exit 3", "printf 'next\\n'"}
		wantOut = "tail1next\n"
	case "stderr-fail":
		t.Commands = []string{"printf 'out\\n'; printf 'err tail' >&2; exit 3"}
		wantOut, wantErr = "out\n", "err tail"
		wantStream = "out\nerr tail"
	case "timeout":
		d := 300 * time.Millisecond
		t.Timeout = &d
		t.Commands = []string{"printf 'started, no newline'; sleep 5"}
		wantOut = "started, no newline"
	}
	if wantStream == "" {
		wantStream = wantOut
	}
	runErr := r.Run(t)
	if (runErr != nil) != wantFail {
		return fmt.Sprintf("Run returned %v, expected failure=%v", runErr, wantFail)
	}
	if got := t.Log.Stdout.String(); got != wantOut {
		return fmt.Sprintf("the task's recorded stdout is %q, its commands wrote %q", got, wantOut)
	}
	if got := t.Log.Stderr.String(); got != wantErr {
		return fmt.Sprintf("the task's recorded stderr is %q, its commands wrote %q", got, wantErr)
	}
	norm := func(s string) string {
		s = tailPrefixRe.ReplaceAllString(s, "")
		return strings.NewReplacer("\r", "", "\n", "").Replace(s)
	}
	switch c.Format {
	case output.FormatRaw:
		if got := outBuf.String() + errBuf.String(); got != wantStream {
			return fmt.Sprintf("raw output forwarded %q, the commands wrote %q", got, wantStream)
		}
	case output.FormatPrefixed:
		if got, want := norm(outBuf.String()+errBuf.String()), norm(wantStream); got != want {
			return fmt.Sprintf("prefixed output carries %q, the commands wrote %q (without prefixes and line terminators)", got, want)
		}
	}
	return ""
}

func tailUnit(res *common.Result) {
	var idx int64
	for _, sh := range []string{"fail", "allow-last", "allow-middle", "stderr-fail", "timeout"} {
		for _, f := range []string{output.FormatRaw, output.FormatPrefixed, output.FormatCockpit} {
			idx++
			if !common.Mine(idx) {
				continue
			}
			c := tailCase{Shape: sh, Format: f}
			res.Evaluations++
			res.AddSample(c)
			d := runTail(c)
			if strings.HasPrefix(d, "infra:") {
				fmt.Fprintln(os.Stderr, d)
				os.Exit(2)
			}
			if d != "" && res.AddViolation(common.Violation{Property: "C19", Key: fmt.Sprintf("C19:tail|%s|%s", c.Shape, c.Format), Desc: fmt.Sprintf("%+v: %s", c, d), Config: c},
				map[string]interface{}{"harness": "taskrun", "mode": "plain", "property": "C19", "tail": c}) {
				return
			}
		}
	}
	res.Nontrivial = res.Evaluations
}
