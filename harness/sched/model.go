//go:build verif

package main

import (
	"fmt"
	"sort"
	"strings"
)

// StageCfg describes one stage of a generated pipeline.
type StageCfg struct {
	Name  string    `json:"name"`
	Deps  []string  `json:"deps,omitempty"`
	Cond  string    `json:"cond,omitempty"` // "", "true", "false", "missing-cmd"
	Fail  bool      `json:"fail,omitempty"` // the stage's task returns an error
	Allow bool      `json:"allow,omitempty"`
	Inner *GraphCfg `json:"inner,omitempty"`
}

// GraphCfg is a pipeline.
type GraphCfg struct {
	Stages []StageCfg `json:"stages"`
}

// Cfg is one configuration of the scheduler harness.
type Cfg struct {
	G           GraphCfg `json:"g"`
	Cancel      string   `json:"cancel,omitempty"` // "", "external"
	Real        bool     `json:"real,omitempty"`   // real TaskRunner with echo-seam commands
	Index       int64    `json:"index"`
	Alias       int      `json:"alias,omitempty"`        // naming scheme of the real stages (the harness keeps its own unique keys)
	ErrKind     int      `json:"err_kind,omitempty"`     // which error value a failing task returns (0 plain, 1 context.DeadlineExceeded, 2 context.Canceled, 3 wrapped deadline, 4 interpreter exit status)
	Shared      bool     `json:"shared,omitempty"`       // every leaf stage refers to ONE task object; the stage is told apart by a stage-level env entry
	ViaConfig   bool `json:"via_config,omitempty"`   // the graphs are built by the configuration builder from task and stage definitions
	SharedInner bool     `json:"shared_inner,omitempty"` // inner pipelines with identical definitions are ONE ExecutionGraph object (two stages that say `pipeline: X`)
	NoPark      bool     `json:"no_park,omitempty"`      // tasks do not park: one canonical completion order (wide graphs)
	Attrs       int      `json:"attrs,omitempty"`        // task attributes that must be irrelevant to scheduling: 1 interactive, 2 timeout, 4 export_as, 8 context name, 16 dir
}

// aliasOf maps a harness stage key to the name the real stage gets. Scheme 1 gives the stages of the
// inner pipeline the names of outer stages (stage names are unique per pipeline only); schemes >= 2
// are the adversarial alphabets of the graph harness: names whose concatenation around a separator is
// ambiguous, that are prefixes of one another or that differ only in case.
var aliasSchemes = func() []map[string]string {
	out := []map[string]string{nil, {"x": "a", "y": "b"}}
	for _, sep := range []string{":", "-", ".", "/", "_", ",", " ", "->", "|", ""} {
		out = append(out, map[string]string{"a": "a", "b": "a" + sep + "b", "c": "b" + sep + "a", "d": "b", "e": "a" + sep + "b" + sep + "a", "x": "a", "y": "a" + sep + "b"})
	}
	out = append(out, map[string]string{"a": "a", "b": "A", "c": "aa", "d": "Aa", "e": "aA", "x": "A", "y": "a"})
	return out
}()

func (c *Cfg) aliasOf(k string) string {
	if c.Alias > 0 && c.Alias < len(aliasSchemes) {
		if v, ok := aliasSchemes[c.Alias][k]; ok {
			return v
		}
	}
	return k
}

func (c Cfg) String() string {
	return c.G.String() + map[bool]string{true: " +cancel", false: ""}[c.Cancel != ""] + c.extras()
}

func (c Cfg) extras() string {
	x := ""
	if c.Alias == 1 {
		x += " names:inner=outer"
	} else if c.Alias > 1 {
		x += fmt.Sprintf(" names:%q,%q,%q", c.aliasOf("a"), c.aliasOf("b"), c.aliasOf("c"))
	}
	if c.ErrKind != 0 {
		x += fmt.Sprintf(" errkind:%d", c.ErrKind)
	}
	if c.Shared {
		x += " shared-task"
	}
	if c.SharedInner {
		x += " shared-inner-graph"
	}
	if c.ViaConfig {
		x += " via-config-builder"
	}
	if c.NoPark {
		x += " no-park"
	}
	if c.Attrs != 0 {
		x += fmt.Sprintf(" attrs:%d", c.Attrs)
	}
	return x
}

func (g GraphCfg) String() string {
	var parts []string
	for _, s := range g.Stages {
		p := s.Name
		if len(s.Deps) > 0 {
			p += "<-" + strings.Join(s.Deps, ",")
		}
		switch {
		case s.Cond != "":
			p += "[cond=" + s.Cond + "]"
		}
		if s.Fail {
			p += "[fail]"
		}
		if s.Allow {
			p += "[allow]"
		}
		if s.Inner != nil {
			p += "{" + s.Inner.String() + "}"
		}
		parts = append(parts, p)
	}
	return strings.Join(parts, " ")
}

// Classes of final stage status.
const (
	clDone      = "done" // ran and succeeded, or failed with allow_failure
	clFailed    = "failed"
	clCancelled = "cancelled"
	clSkipped   = "skipped"
	clNotRun    = "notrun" // stage of a nested pipeline that was never scheduled
	clOpen      = "open"   // still waiting/running (only legal after a cancelled run)
)

// Model is the reference evaluation M(G, sigma) of DESIGN.md §5.
type Model struct {
	Class     map[string]string
	Run       map[string]bool // tasks handed to the runner
	Err       bool
	Ambiguous bool // a condition-false stage has a failed/cancelled ancestor: the statement's two clauses disagree
	deps      map[string][]string
	parent    map[string]string   // inner stage -> enclosing stage (the last one evaluated)
	parents   map[string][]string // inner stage -> every enclosing stage (a pipeline object may be included by several stages)
}

func topo(g *GraphCfg) []int {
	idx := map[string]int{}
	for i, s := range g.Stages {
		idx[s.Name] = i
	}
	var order []int
	state := make([]int, len(g.Stages))
	var visit func(i int)
	visit = func(i int) {
		if state[i] != 0 {
			return
		}
		state[i] = 1
		for _, d := range g.Stages[i].Deps {
			visit(idx[d])
		}
		state[i] = 2
		order = append(order, i)
	}
	for i := range g.Stages {
		visit(i)
	}
	return order
}

func evalModel(g *GraphCfg) *Model {
	m := &Model{Class: map[string]string{}, Run: map[string]bool{}, deps: map[string][]string{}, parent: map[string]string{}, parents: map[string][]string{}}
	m.Err = m.eval(g, "")
	return m
}

func (m *Model) addParent(name, parent string) {
	for _, p := range m.parents[name] {
		if p == parent {
			return
		}
	}
	m.parents[name] = append(m.parents[name], parent)
}

func (m *Model) markNotRun(g *GraphCfg, parent string) {
	for _, s := range g.Stages {
		m.addParent(s.Name, parent)
		m.deps[s.Name] = s.Deps
		if c, ok := m.Class[s.Name]; ok && c != clNotRun {
			continue // the same pipeline object was run through another stage that includes it
		}
		m.Class[s.Name] = clNotRun
		m.parent[s.Name] = parent
		if s.Inner != nil {
			m.markNotRun(s.Inner, s.Name)
		}
	}
}

func (m *Model) eval(g *GraphCfg, parent string) bool {
	graphErr := false
	blockedAnc := map[string]bool{} // stage has a failed/cancelled ancestor
	for _, i := range topo(g) {
		s := g.Stages[i]
		m.deps[s.Name] = s.Deps
		m.parent[s.Name] = parent
		m.addParent(s.Name, parent)
		blocked := false
		for _, d := range s.Deps {
			if m.Class[d] == clFailed || m.Class[d] == clCancelled || blockedAnc[d] {
				blockedAnc[s.Name] = true
			}
			if m.Class[d] == clFailed || m.Class[d] == clCancelled {
				blocked = true
			}
		}
		switch {
		case s.Cond == "false":
			m.Class[s.Name] = clSkipped
			if blockedAnc[s.Name] {
				m.Ambiguous = true
			}
			if s.Inner != nil {
				m.markNotRun(s.Inner, s.Name)
			}
		case blocked:
			m.Class[s.Name] = clCancelled
			if s.Inner != nil {
				m.markNotRun(s.Inner, s.Name)
			}
		default:
			failed := s.Fail
			if s.Inner != nil {
				failed = m.eval(s.Inner, s.Name)
			} else {
				m.Run[s.Name] = true
			}
			if failed && !s.Allow {
				m.Class[s.Name] = clFailed
				graphErr = true
			} else {
				m.Class[s.Name] = clDone
			}
		}
	}
	return graphErr
}

// eligible returns the tasks that must be in flight given the set of tasks that have ended.
func (m *Model) eligible(ended map[string]bool, g *GraphCfg) []string {
	var out []string
	var walk func(g *GraphCfg, outerReady bool)
	walk = func(g *GraphCfg, outerReady bool) {
		for _, s := range g.Stages {
			ready := outerReady
			for _, d := range s.Deps {
				if !m.final(d, ended, g) {
					ready = false
				}
			}
			if s.Inner != nil {
				if m.Class[s.Name] == clDone || m.Class[s.Name] == clFailed {
					walk(s.Inner, ready)
				}
				continue
			}
			if m.Run[s.Name] && !ended[s.Name] && ready {
				out = append(out, s.Name)
			}
		}
	}
	walk(g, true)
	sort.Strings(out)
	uniq := out[:0]
	for i, s := range out { // a shared pipeline object is reached through each including stage
		if i == 0 || s != out[i-1] {
			uniq = append(uniq, s)
		}
	}
	return uniq
}

// final reports whether stage d (of graph g) has reached its final state given ended tasks.
func (m *Model) final(d string, ended map[string]bool, g *GraphCfg) bool {
	for _, s := range g.Stages {
		if s.Name != d {
			continue
		}
		switch m.Class[d] {
		case clSkipped:
			return true
		case clCancelled:
			// cancelled once its blocking dependency is final; irrelevant for eligibility of
			// dependants (they are cancelled too)
			return true
		}
		if s.Inner != nil {
			// a nested pipeline is final once it was started (its own dependencies are final)
			// and every inner stage is final
			for _, dd := range s.Deps {
				if !m.final(dd, ended, g) {
					return false
				}
			}
			for _, in := range s.Inner.Stages {
				if !m.final(in.Name, ended, s.Inner) {
					return false
				}
			}
			return true
		}
		return ended[d]
	}
	return false
}

func describeClasses(c map[string]string) string {
	var ks []string
	for k := range c {
		ks = append(ks, k)
	}
	sort.Strings(ks)
	var parts []string
	for _, k := range ks {
		parts = append(parts, fmt.Sprintf("%s=%s", k, c[k]))
	}
	return strings.Join(parts, " ")
}
