//go:build verif

// Harness "sched": the real (instrumented) scheduler.Scheduler / ExecutionGraph / Stage driven by a
// checker-controlled runner, explored under the vrt scheduler. Decides C01, C02, C03, C04.
package main

import (
	"context"
	"errors"
	"fmt"
	"io"
	"os"
	"sort"
	"strings"
	"time"

	"github.com/sirupsen/logrus"

	"github.com/taskctl/taskctl/internal/config"
	"github.com/taskctl/taskctl/internal/vh/common"
	"github.com/taskctl/taskctl/pkg/scheduler"
	"github.com/taskctl/taskctl/pkg/task"
	"github.com/taskctl/taskctl/pkg/variables"
	"github.com/taskctl/taskctl/vrt"
	"mvdan.cc/sh/v3/interp"
)

// ---- enumeration of configurations ----

var names = []string{"a", "b", "c", "d", "e"}

// allDAGs returns every labelled acyclic digraph on n nodes as dependency lists (deps[i] = nodes i depends on).
func allDAGs(n int) [][][]int {
	var pairs [][2]int
	for i := 0; i < n; i++ {
		for j := 0; j < n; j++ {
			if i != j {
				pairs = append(pairs, [2]int{i, j}) // i depends on j
			}
		}
	}
	var out [][][]int
	for mask := 0; mask < 1<<uint(len(pairs)); mask++ {
		deps := make([][]int, n)
		for k, p := range pairs {
			if mask&(1<<uint(k)) != 0 {
				deps[p[0]] = append(deps[p[0]], p[1])
			}
		}
		if acyclic(deps) {
			out = append(out, deps)
		}
	}
	return out
}

func acyclic(deps [][]int) bool {
	n := len(deps)
	state := make([]int, n)
	var visit func(i int) bool
	visit = func(i int) bool {
		if state[i] == 1 {
			return false
		}
		if state[i] == 2 {
			return true
		}
		state[i] = 1
		for _, d := range deps[i] {
			if !visit(d) {
				return false
			}
		}
		state[i] = 2
		return true
	}
	for i := 0; i < n; i++ {
		if !visit(i) {
			return false
		}
	}
	return true
}

// outcome alphabet: 0 ok, 1 fail, 2 fail+allow_failure, 3 condition false, 4 condition "true" + ok
func applyOutcome(s *StageCfg, o int) {
	switch o {
	case 1:
		s.Fail = true
	case 2:
		s.Fail, s.Allow = true, true
	case 3:
		s.Cond = "false"
	case 4:
		s.Cond = "true"
	}
}

func mkGraph(deps [][]int, outs []int, nm []string) GraphCfg {
	var g GraphCfg
	for i := range deps {
		s := StageCfg{Name: nm[i]}
		for _, d := range deps[i] {
			s.Deps = append(s.Deps, nm[d])
		}
		applyOutcome(&s, outs[i])
		g.Stages = append(g.Stages, s)
	}
	return g
}

// forEachOutcome enumerates alphabet^n.
func forEachOutcome(n int, alphabet []int, f func(outs []int)) {
	outs := make([]int, n)
	var rec func(i int)
	rec = func(i int) {
		if i == n {
			f(outs)
			return
		}
		for _, a := range alphabet {
			outs[i] = a
			rec(i + 1)
		}
	}
	rec(0)
}

// ---- driver ----

type fakeRunner struct {
	cfg     *Cfg
	stages  map[string]*scheduler.Stage
	fail    map[string]bool
	deps    map[string][]string
	depAlts map[string][][]string // shared pipeline objects: one alternative per including stage
	allow   map[string]bool
}

func (r *fakeRunner) Run(t *task.Task) error {
	key := t.Name
	if r.cfg.Shared {
		key, _ = t.Env.Get("STAGE").(string)
		if key == "" {
			vrt.Fail("C08|shared task reached the runner without its stage's env entry")
			return errors.New("no stage")
		}
	}
	// C01, checked at the very moment the task is handed to the runner: every dependency of the
	// stage has published a final status. A pipeline object included by several stages may be
	// started through any of them: one alternative set of outer dependencies has to be satisfied.
	alts := r.depAlts[key]
	if len(alts) == 0 {
		alts = [][]string{r.deps[key]}
	}
	firstFail := ""
	for _, alt := range alts {
		fail := ""
		for _, d := range alt {
			st := r.stages[d]
			if st == nil {
				continue
			}
			switch st.Status { // plain read: this thread holds the baton
			case scheduler.StatusDone, scheduler.StatusSkipped:
			case scheduler.StatusError:
				if !st.AllowFailure && fail == "" {
					fail = fmt.Sprintf("C01|%s started while dependency %s has failed", key, d)
				}
			default:
				if fail == "" {
					fail = fmt.Sprintf("C01|%s started while dependency %s has status %d", key, d, st.Status)
				}
			}
		}
		if fail == "" {
			firstFail = ""
			break
		}
		if firstFail == "" {
			firstFail = fail
		}
	}
	if firstFail != "" {
		vrt.Fail("%s", firstFail)
	}
	vrt.Emit("start", key)
	if !r.cfg.NoPark {
		vrt.Park("run:" + key)
	}
	vrt.Emit("end", key)
	if r.fail[key] {
		switch r.cfg.ErrKind {
		case 1:
			return context.DeadlineExceeded
		case 2:
			return context.Canceled
		case 3:
			return fmt.Errorf("task %s: %w", key, context.DeadlineExceeded)
		case 4:
			return interp.NewExitStatus(3)
		}
		return errors.New("task " + key + " failed")
	}
	return nil
}

func (r *fakeRunner) Cancel() { vrt.Emit("runner.cancel", "") }
func (r *fakeRunner) Finish() {}

type built struct {
	g      *scheduler.ExecutionGraph
	stages map[string]*scheduler.Stage
	runner *fakeRunner
}

func build(cfg *Cfg) (*built, error) {
	b := &built{stages: map[string]*scheduler.Stage{}}
	r := &fakeRunner{cfg: cfg, stages: b.stages, fail: map[string]bool{}, deps: map[string][]string{}, depAlts: map[string][][]string{}, allow: map[string]bool{}}
	b.runner = r
	var shared *task.Task
	innerGraphs := map[string]*scheduler.ExecutionGraph{}
	var mk func(g *GraphCfg, outerDeps []string) (*scheduler.ExecutionGraph, error)
	mk = func(g *GraphCfg, outerDeps []string) (*scheduler.ExecutionGraph, error) {
		var sts []*scheduler.Stage
		for _, i := range topo(g) {
			s := g.Stages[i]
			st := &scheduler.Stage{Name: cfg.aliasOf(s.Name), Condition: s.Cond, AllowFailure: s.Allow}
			for _, d := range s.Deps {
				st.DependsOn = append(st.DependsOn, cfg.aliasOf(d))
			}
			all := append(append([]string{}, outerDeps...), s.Deps...)
			if s.Inner != nil {
				var ig *scheduler.ExecutionGraph
				if cfg.SharedInner {
					ig = innerGraphs[s.Inner.String()]
					addAlts(r, s.Inner, all)
				}
				if ig == nil {
					var err error
					ig, err = mk(s.Inner, all)
					if err != nil {
						return nil, err
					}
					innerGraphs[s.Inner.String()] = ig
				}
				st.Pipeline = ig
			} else {
				if cfg.Shared {
					if shared == nil {
						shared = task.FromCommands("true")
						shared.Name = "shared"
					}
					st.Task = shared
					st.Env = variables.FromMap(map[string]string{"STAGE": s.Name})
				} else {
					st.Task = task.FromCommands("true")
					st.Task.Name = s.Name
				}
				applyAttrs(st.Task, cfg.Attrs)
				r.fail[s.Name] = s.Fail
				r.deps[s.Name] = all
			}
			b.stages[s.Name] = st
			sts = append(sts, st)
		}
		return scheduler.NewExecutionGraph(sts...)
	}
	if cfg.ViaConfig {
		return buildViaConfig(cfg, b, r)
	}
	g, err := mk(&cfg.G, nil)
	b.g = g
	return b, err
}

// buildViaConfig builds the same graphs through the configuration builder (task and stage definitions ->
// config.buildFromDefinition), the route every pipeline of a configuration file takes.
func buildViaConfig(cfg *Cfg, b *built, r *fakeRunner) (*built, error) {
	var tasks []string
	pipes := map[string][]config.VerifSchedStage{}
	var walk func(name string, g *GraphCfg, outer []string)
	walk = func(name string, g *GraphCfg, outer []string) {
		for _, i := range topo(g) {
			s := g.Stages[i]
			all := append(append([]string{}, outer...), s.Deps...)
			st := config.VerifSchedStage{Name: s.Name, DependsOn: append([]string{}, s.Deps...), Condition: s.Cond, AllowFailure: s.Allow}
			if s.Inner != nil {
				st.Pipeline = "p_" + s.Name
				walk(st.Pipeline, s.Inner, all)
			} else {
				st.Task = s.Name
				tasks = append(tasks, s.Name)
				r.fail[s.Name] = s.Fail
				r.deps[s.Name] = all
			}
			pipes[name] = append(pipes[name], st)
		}
	}
	walk("main", &cfg.G, nil)
	graphs, err := config.VerifBuildPipelines(tasks, pipes)
	if err != nil {
		return b, err
	}
	for _, pn := range vrtSortedKeys(graphs) {
		for _, sn := range vrtSortedStageNames(graphs[pn]) {
			st, _ := graphs[pn].Node(sn)
			b.stages[sn] = st
		}
	}
	b.g = graphs["main"]
	return b, nil
}

func vrtSortedKeys(m map[string]*scheduler.ExecutionGraph) []string {
	var ks []string
	for k := range m {
		ks = append(ks, k)
	}
	sort.Strings(ks)
	return ks
}

func vrtSortedStageNames(g *scheduler.ExecutionGraph) []string {
	var ks []string
	for k := range g.Nodes() {
		ks = append(ks, k)
	}
	sort.Strings(ks)
	return ks
}

// addAlts records, for every leaf of a shared inner pipeline, the dependencies it has when reached
// through one including stage.
func addAlts(r *fakeRunner, g *GraphCfg, outer []string) {
	for _, s := range g.Stages {
		all := append(append([]string{}, outer...), s.Deps...)
		if s.Inner != nil {
			addAlts(r, s.Inner, all)
			continue
		}
		r.depAlts[s.Name] = append(r.depAlts[s.Name], all)
	}
}

// applyAttrs sets task attributes that have nothing to do with scheduling.
func applyAttrs(t *task.Task, attrs int) {
	if attrs&1 != 0 {
		t.Interactive = true
	}
	if attrs&2 != 0 {
		d := time.Hour
		t.Timeout = &d
	}
	if attrs&4 != 0 {
		t.ExportAs = "EXPORTED"
	}
	if attrs&8 != 0 {
		t.Context = "somecontext"
	}
	if attrs&16 != 0 {
		t.Dir = "/somewhere"
	}
}

func classOf(st *scheduler.Stage) string {
	switch st.Status {
	case scheduler.StatusDone:
		return clDone
	case scheduler.StatusSkipped:
		return clSkipped
	case scheduler.StatusError:
		if st.AllowFailure {
			return clDone
		}
		return clFailed
	case scheduler.StatusCanceled:
		return clCancelled
	}
	return clOpen
}

func body(cfg *Cfg, m *Model) func() {
	return func() {
		b, err := build(cfg)
		if err != nil {
			vrt.Emit("builderr", err.Error())
			return
		}
		s := scheduler.NewScheduler(b.runner)
		if cfg.Cancel == "external" {
			vrt.GoExternal("canceller", func() {
				vrt.Emit("cancel.call", "")
				s.Cancel()
				vrt.Emit("cancel.ret", "")
			})
		}
		err = s.Schedule(b.g)
		if err != nil {
			vrt.Emit("ret", "error")
		} else {
			vrt.Emit("ret", "nil")
		}
		var ns []string
		for n := range b.stages {
			ns = append(ns, n)
		}
		sort.Strings(ns)
		for _, n := range ns {
			st := b.stages[n]
			cl := classOf(st)
			if cl == clOpen && m.Class[n] == clNotRun {
				cl = clNotRun
			}
			vrt.Emit("status", n+"="+cl)
		}
	}
}

// observation is what C02 compares between executions of one configuration.
type observation struct {
	Outcome string
	Ret     string
	Class   map[string]string
	Starts  map[string]int
	Order   []string // start/end events
}

func observe(x *vrt.Execution) observation {
	o := observation{Outcome: x.Outcome, Class: map[string]string{}, Starts: map[string]int{}}
	for _, e := range x.Events {
		switch e.Kind {
		case "start":
			o.Starts[e.Arg]++
			o.Order = append(o.Order, "start:"+e.Arg)
		case "end":
			o.Order = append(o.Order, "end:"+e.Arg)
		case "ret":
			o.Ret = e.Arg
		case "status":
			kv := strings.SplitN(e.Arg, "=", 2)
			o.Class[kv[0]] = kv[1]
		}
	}
	return o
}

func (o observation) vector() string {
	var ks []string
	for k, v := range o.Starts {
		ks = append(ks, fmt.Sprintf("%s*%d", k, v))
	}
	sort.Strings(ks)
	return o.Outcome + "|" + o.Ret + "|" + describeClasses(o.Class) + "|" + strings.Join(ks, ",")
}

type replayFile struct {
	Harness  string   `json:"harness"`
	Property string   `json:"property"`
	Unit     string   `json:"unit"`
	Cfg      Cfg      `json:"cfg"`
	Choices  []int    `json:"choices"`
	Expect   string   `json:"expect"`
	Events   []string `json:"events"`
}

func eventsOf(x *vrt.Execution) []string {
	var out []string
	for _, e := range x.Events {
		out = append(out, e.String())
	}
	return out
}

// judge evaluates the oracles of C01, C02, C03 on one execution. It returns violations as
// (property, key, description).
func judge(cfg *Cfg, m *Model, x *vrt.Execution, first *string) [][3]string {
	var v [][3]string
	add := func(p, key, desc string) { v = append(v, [3]string{p, key, desc}) }
	o := observe(x)
	cancelled := cfg.Cancel != "" || hasCondErr(&cfg.G)

	// in-execution oracle failures (C01 status check)
	for _, f := range x.Failures {
		kv := strings.SplitN(f, "|", 2)
		add(kv[0], kv[0]+":early-start", kv[1])
	}
	// C01 on the event log: at start(s) every dependency that runs has ended
	ended := map[string]bool{}
	inFlight := map[string]int{} // executions of a task that have started and not ended
	for _, e := range x.Events {
		switch e.Kind {
		case "end":
			ended[e.Arg] = true
			inFlight[e.Arg]--
		case "start":
			inFlight[e.Arg]++
			msg := ""
			for _, alt := range depAlternatives(m, e.Arg) {
				bad := ""
				for _, d := range alt {
					for _, t := range tasksOf(&cfg.G, d) {
						if m.Run[t] && !ended[t] && bad == "" {
							bad = fmt.Sprintf("%s started before %s (needed by dependency %s) ended", e.Arg, t, d)
						}
						if m.Run[t] && ended[t] && inFlight[t] > 0 && bad == "" {
							bad = fmt.Sprintf("%s started while an execution of %s (needed by dependency %s) is still running", e.Arg, t, d)
						}
					}
				}
				if bad == "" {
					msg = ""
					break
				}
				if msg == "" {
					msg = bad
				}
			}
			if msg != "" {
				add("C01", "C01:start-before-dependency-end", msg)
			}
		}
	}
	// C03: termination
	if x.Outcome != vrt.Completed {
		add("C03", "C03:"+x.Outcome, fmt.Sprintf("run did not return: %s %s; threads: %v; %s", x.Outcome, x.PanicVal, x.Blocked, x.Stack))
		return v
	}
	if o.Ret == "" {
		add("C03", "C03:no-return", "Schedule did not return")
		return v
	}
	for t, n := range o.Starts {
		if n > 1 {
			add("C03", "C03:twice", fmt.Sprintf("task %s executed %d times", t, n))
		}
	}
	if !cancelled {
		for n, cl := range o.Class {
			if cl == clOpen {
				add("C03", "C03:open-stage", fmt.Sprintf("stage %s left waiting/running after return", n))
			}
		}
		for t := range m.Run {
			if o.Starts[t] != 1 {
				add("C03", "C03:not-once", fmt.Sprintf("eligible task %s executed %d times", t, o.Starts[t]))
			}
		}
		for t, n := range o.Starts {
			if !m.Run[t] && n > 0 {
				add("C02", "C02:ran-ineligible", fmt.Sprintf("task %s ran although the model says it must not (%s)", t, m.Class[t]))
			}
		}
		// C02: statuses / error against the model
		if m.Ambiguous {
			for _, s := range flatten(&cfg.G) {
				if s.Cond == "false" && o.Starts[s.Name] > 0 {
					add("C02", "C02:condfalse-ran", "condition-false stage "+s.Name+" ran")
				}
			}
		} else {
			if got, want := describeClasses(o.Class), describeClasses(m.Class); got != want {
				add("C02", "C02:status-mismatch", fmt.Sprintf("final statuses %s, model %s", got, want))
			}
		}
		wantRet := "nil"
		if m.Err {
			wantRet = "error"
		}
		if o.Ret != wantRet {
			add("C02", "C02:error-mismatch", fmt.Sprintf("Schedule returned %s, model says %s", o.Ret, wantRet))
		}
		// C02 (iii): timing independence
		vec := o.vector()
		if *first == "" {
			*first = vec
		} else if *first != vec {
			add("C02", "C02:timing-dependent", fmt.Sprintf("two schedules of the same configuration differ: %s vs %s", *first, vec))
		}
	}
	return v
}

func hasCondErr(g *GraphCfg) bool {
	for _, s := range g.Stages {
		if s.Cond == "missing-cmd" {
			return true
		}
		if s.Inner != nil && hasCondErr(s.Inner) {
			return true
		}
	}
	return false
}

func flatten(g *GraphCfg) []StageCfg {
	var out []StageCfg
	for _, s := range g.Stages {
		out = append(out, s)
		if s.Inner != nil {
			out = append(out, flatten(s.Inner)...)
		}
	}
	return out
}

// depAlternatives: the dependency sets under which task t may start: its own depends_on plus those of
// the enclosing stages, one alternative per chain of including stages (a pipeline object may be
// included by several stages).
func depAlternatives(m *Model, t string) [][]string {
	ps := m.parents[t]
	if len(ps) == 0 {
		ps = []string{""}
	}
	var out [][]string
	for _, p := range ps {
		if p == "" {
			out = append(out, append([]string{}, m.deps[t]...))
			continue
		}
		for _, alt := range depAlternatives(m, p) {
			out = append(out, append(append([]string{}, m.deps[t]...), alt...))
		}
	}
	return out
}

// tasksOf: the tasks whose end makes stage d final (d itself, or all tasks of its nested pipeline).
func tasksOf(g *GraphCfg, d string) []string {
	for _, s := range flatten(g) {
		if s.Name == d {
			if s.Inner == nil {
				return []string{d}
			}
			var out []string
			for _, in := range flatten(s.Inner) {
				if in.Inner == nil {
					out = append(out, in.Name)
				}
			}
			return out
		}
	}
	return nil
}

func setup(*vrt.Sched) {}

// exploreCfg explores one configuration and records violations of the target property.
func exploreCfg(res *common.Result, cfg *Cfg, bound int, quiescentOnly bool, prune bool) (stop bool) {
	m := evalModel(&cfg.G)
	first := ""
	target := *common.Prop
	var viol *[3]string
	var vx *vrt.Execution
	distinct := map[string]bool{}
	var ecfg vrt.ExploreConfig
	ecfg.Bound = bound
	ecfg.QuiescentOnly = quiescentOnly
	ecfg.Prune = prune
	ecfg.Deadline = common.Deadline()
	ecfg.ShardI, ecfg.ShardN = common.SubShardOf()
	if target == "C04" {
		ecfg.Setup = func(s *vrt.Sched) {
			s.OnQuiesc = func(parked []string) {
				ended := map[string]bool{}
				for _, e := range s.Events {
					if e.Kind == "end" {
						ended[e.Arg] = true
					}
				}
				var inflight []string
				for _, p := range parked {
					inflight = append(inflight, strings.TrimPrefix(p, "run:"))
				}
				sort.Strings(inflight)
				want := m.eligible(ended, &cfg.G)
				if strings.Join(inflight, ",") != strings.Join(want, ",") {
					vrt.Fail("C04|at quiescence in flight {%s}, eligible {%s}", strings.Join(inflight, ","), strings.Join(want, ","))
				}
				vrt.Emit("quiescent", strings.Join(inflight, ","))
			}
		}
	}
	if cfg.NoPark {
		// wide graphs: the schedule space of 17..65 threads is not enumerable; the stated bound is the first
		// 16 schedules in depth-first order, the enumeration is over sizes, shapes and outcomes
		ecfg.MaxExecs = 16
	}
	st := vrt.Explore(ecfg, body(cfg, m), func(x *vrt.Execution) bool {
		if x.Outcome == vrt.Diverged {
			fmt.Fprintf(os.Stderr, "replay divergence in %s: %s\n", cfg, x.PanicVal)
			os.Exit(2)
		}
		var vs [][3]string
		if target == "C04" {
			for _, f := range x.Failures {
				kv := strings.SplitN(f, "|", 2)
				if kv[0] == "C04" {
					vs = append(vs, [3]string{"C04", "C04:not-concurrent", kv[1]})
				}
			}
			if x.Outcome != vrt.Completed {
				vs = append(vs, [3]string{"C04", "C04:" + x.Outcome, fmt.Sprintf("pipeline whose eligible stages wait for each other did not complete: %s %s %v", x.Outcome, x.PanicVal, x.Blocked)})
			}
			distinct[strings.Join(quiescentSets(x), ";")] = true
		} else {
			vs = judge(cfg, m, x, &first)
			distinct[observe(x).vector()+"|"+strings.Join(observe(x).Order, ",")] = true
		}
		for i := range vs {
			if vs[i][0] == target {
				viol = &vs[i]
				vx = x
				return false
			}
		}
		return true
	})
	si, sn := common.SubShardOf()
	countCfg := sn == 0 || si == 0
	if countCfg {
		res.Configs++
	}
	res.Evaluations += st.Execs
	res.Traces += st.Execs
	res.States += st.States
	res.Transitions += st.Transitions
	for k, n := range st.Outcomes {
		res.Outcomes[k] += n
	}
	if len(distinct) >= 2 && countCfg {
		res.Nontrivial++
	}
	res.Extra["distinct_observations"] += int64(len(distinct))
	if cfg.NoPark && viol == nil && st.Capped == "max executions" {
		st.Exhaustive = true // the cap IS the stated bound of this unit
		res.Extra["first_16_schedules_only_configs"]++
	}
	if viol == nil && !st.Exhaustive {
		res.Exhaustive = false
		res.Capped = st.Capped
		return true
	}
	if res.Configs%97 == 1 {
		res.AddSample(map[string]interface{}{"config": cfg.String(), "executions": st.Execs, "bound": bound, "distinct_observations": len(distinct)})
	}
	if viol != nil {
		// replay twice: the event log must be identical, otherwise the checker is broken
		for k := 0; k < 2; k++ {
			y := vrt.Replay(vx.Choices, ecfg.Setup, body(cfg, m))
			if strings.Join(eventsOf(y), ";") != strings.Join(eventsOf(vx), ";") || y.Outcome != vx.Outcome {
				fmt.Fprintf(os.Stderr, "non-deterministic replay for %s\n", cfg)
				os.Exit(2)
			}
		}
		key := viol[1] + "|" + shape(cfg)
		rf := replayFile{Harness: "sched", Property: target, Unit: *common.Unit, Cfg: *cfg, Choices: vx.Choices, Expect: viol[1], Events: eventsOf(vx)}
		return res.AddViolation(common.Violation{Property: target, Key: key, Desc: cfg.String() + ": " + viol[2], Config: cfg, Choices: vx.Choices, Events: eventsOf(vx)}, rf)
	}
	return false
}

// shape is the canonical identification of the failing situation used in violation keys.
func shape(cfg *Cfg) string {
	s := ""
	if cfg.Cancel != "" {
		s += "cancel=" + cfg.Cancel + ";"
	}
	if hasCondErr(&cfg.G) {
		s += "conderr;"
	}
	if cfg.Real {
		s += "real;"
	}
	return s + cfg.G.String()
}

func quiescentSets(x *vrt.Execution) []string {
	var out []string
	for _, e := range x.Events {
		if e.Kind == "quiescent" {
			out = append(out, e.Arg)
		}
	}
	return out
}

func main() {
	common.Init()
	logrus.SetOutput(io.Discard)
	logrus.StandardLogger().ExitFunc = func(int) { panic(vrt.AbortSentinel{Msg: "logrus.Fatal"}) }
	res := common.NewResult("sched")

	if *common.Replay != "" {
		var rf replayFile
		common.ReadReplay(&rf)
		m := evalModel(&rf.Cfg.G)
		x := vrt.Replay(rf.Choices, nil, body(&rf.Cfg, m))
		fmt.Printf("config: %s\noutcome: %s %s\nblocked: %v\n", rf.Cfg.String(), x.Outcome, x.PanicVal, x.Blocked)
		for _, e := range x.Events {
			fmt.Println("  ", e)
		}
		first := ""
		bad := false
		for _, v := range judge(&rf.Cfg, m, x, &first) {
			fmt.Printf("oracle: %s %s: %s\n", v[0], v[1], v[2])
			if v[0] == rf.Property {
				bad = true
			}
		}
		if bad {
			fmt.Printf("VIOLATION property=%s replay=%s\n", rf.Property, *common.Replay)
			os.Exit(1)
		}
		return
	}

	runUnit(res)
	res.Write()
}
