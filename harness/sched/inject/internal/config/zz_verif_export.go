//go:build verif

package config

import "github.com/taskctl/taskctl/pkg/scheduler"

// VerifSchedStage / VerifBuildPipelines: the scheduler harness can build its graphs through the
// configuration builder (the route every pipeline of a configuration file takes) instead of
// constructing scheduler.Stage values itself.
type VerifSchedStage struct {
	Name         string
	Task         string
	Pipeline     string
	DependsOn    []string
	Condition    string
	AllowFailure bool
}

func VerifBuildPipelines(tasks []string, pipelines map[string][]VerifSchedStage) (map[string]*scheduler.ExecutionGraph, error) {
	def := &configDefinition{Tasks: map[string]*taskDefinition{}, Pipelines: map[string][]*stageDefinition{}}
	for _, t := range tasks {
		def.Tasks[t] = &taskDefinition{Command: []string{"true"}}
	}
	for n, p := range pipelines { // only fills a map: iteration order is irrelevant
		for _, s := range p {
			def.Pipelines[n] = append(def.Pipelines[n], &stageDefinition{Name: s.Name, Task: s.Task, Pipeline: s.Pipeline, DependsOn: s.DependsOn, Condition: s.Condition, AllowFailure: s.AllowFailure})
		}
	}
	cfg, err := buildFromDefinition(def, &loaderContext{})
	if err != nil {
		return nil, err
	}
	return cfg.Pipelines, nil
}
