//go:build verif

package main

import (
	"flag"
	"fmt"
	"os"
	"strings"

	"github.com/taskctl/taskctl/vrt"

	"github.com/taskctl/taskctl/internal/vh/common"
)

var only = flag.Int64("only", -1, "explore only the configuration with this index")
var pruneFlag = flag.Bool("prune", true, "cost-aware state-key pruning")
var verbose = flag.Bool("v", false, "print per-configuration statistics")

// runUnit enumerates the configurations of the selected unit (sharded) and explores each.
func runUnit(res *common.Result) {
	var idx int64
	aliasAll, errKind, sharedAll, attrsAll, viaConfig := 0, 0, false, 0, false
	each := func(cfg Cfg, bound int, quiescentOnly, prune bool) bool {
		if attrsAll != 0 {
			cfg.Attrs = attrsAll
		}
		if viaConfig {
			cfg.ViaConfig = true
		}
		if aliasAll != 0 {
			cfg.Alias = aliasAll
		}
		if errKind != 0 {
			cfg.ErrKind = errKind
		}
		if sharedAll {
			cfg.Shared = true
		}
		cfg.Index = idx
		idx++
		if !common.Mine(cfg.Index) || (*only >= 0 && cfg.Index != *only) {
			return false
		}
		if *verbose {
			defer func(c int64, e int64) {
				fmt.Fprintf(os.Stderr, "cfg %d %s: %d execs\n", cfg.Index, cfg.String(), res.Evaluations-e)
			}(res.Configs, res.Evaluations)
		}
		if common.Expired() {
			res.Exhaustive = false
			res.Capped = "internal deadline"
			return true
		}
		return exploreCfg(res, &cfg, bound, quiescentOnly, prune)
	}
	sigma := []int{0, 1, 2, 3}
	dags := func(nmin, nmax int, alphabet []int, bound int, q, prune bool, filter func(outs []int) bool) {
		for n := nmin; n <= nmax; n++ {
			for _, deps := range allDAGs(n) {
				stop := false
				forEachOutcome(n, alphabet, func(outs []int) {
					if stop || (filter != nil && !filter(outs)) {
						return
					}
					if each(Cfg{G: mkGraph(deps, outs, names)}, bound, q, prune) {
						stop = true
					}
				})
				if stop {
					return
				}
			}
		}
	}
	nonOK := func(max int) func([]int) bool {
		return func(outs []int) bool {
			k := 0
			for _, o := range outs {
				if o != 0 {
					k++
				}
			}
			return k <= max
		}
	}
	res.Bound = 0
	switch *common.Unit {
	case "dag3-b2": // every DAG on <=3 stages x Sigma^n, preemption bound 2
		res.Bound = 2
		dags(1, 3, sigma, 2, false, *pruneFlag, nil)
	case "dag2-b2":
		res.Bound = 2
		dags(1, 2, sigma, 2, false, *pruneFlag, nil)
	case "dag3-b1":
		res.Bound = 1
		dags(1, 3, sigma, 1, false, *pruneFlag, nil)
	case "dag3-b3":
		res.Bound = 3
		dags(1, 3, sigma, 3, false, *pruneFlag, nil)
	case "agreement-b1": // engine self-check on the real scheduler: pruned and unpruned searches must observe the same things
		res.Bound = 1
		for n := 1; n <= 2; n++ {
			for _, deps := range allDAGs(n) {
				forEachOutcome(n, sigma, func(outs []int) {
					cfg := Cfg{G: mkGraph(deps, outs, names), Index: idx}
					idx++
					if !common.Mine(cfg.Index) {
						return
					}
					m := evalModel(&cfg.G)
					var sets [2]map[string]bool
					var execs [2]int64
					for k, prune := range []bool{false, true} {
						sets[k] = map[string]bool{}
						st := vrt.Explore(vrt.ExploreConfig{Bound: 1, Prune: prune}, body(&cfg, m), func(x *vrt.Execution) bool {
							o := observe(x)
							sets[k][o.vector()+"|"+strings.Join(o.Order, ",")] = true
							return true
						})
						execs[k] = st.Execs
						res.Evaluations += st.Execs
						res.Traces += st.Execs
						res.States += st.States
						res.Transitions += st.Transitions
					}
					for o := range sets[0] {
						if !sets[1][o] {
							fmt.Fprintf(os.Stderr, "ENGINE SELF-CHECK FAILED: state-key pruning lost observation %q of %s (%d vs %d executions)\n", o, cfg.String(), execs[0], execs[1])
							os.Exit(2)
						}
					}
					res.Configs++
					if len(sets[0]) >= 2 {
						res.Nontrivial++
					}
					res.Extra["agreement_unpruned_execs"] += execs[0]
					res.Extra["agreement_pruned_execs"] += execs[1]
					res.AddSample(map[string]interface{}{"config": cfg.String(), "unpruned_executions": execs[0], "pruned_executions": execs[1], "distinct_observations": len(sets[0])})
				})
			}
		}
	case "dag2-unbounded": // every interleaving (no preemption bound), state-key pruning
		res.Bound = -1
		dags(1, 2, sigma, -1, false, true, nil)
	case "dag3-unbounded": // no preemption bound, state-key pruning
		res.Bound = -1
		dags(1, 3, sigma, -1, false, true, nil)
	case "dag4-b0": // every DAG on 4 stages x Sigma^4, all completion orders
		dags(4, 4, sigma, 0, false, *pruneFlag, nil)
	case "dag4-b1":
		res.Bound = 1
		dags(4, 4, sigma, 1, false, *pruneFlag, nil)
	case "dag4-b2-few": // four stages, at most 2 non-ok stages, bound 2
		res.Bound = 2
		dags(4, 4, sigma, 2, false, *pruneFlag, nonOK(2))
	case "condtrue-b1": // conditions that hold
		res.Bound = 1
		dags(1, 3, []int{0, 1, 4}, 1, false, *pruneFlag, nil)
	case "nested-b0", "nested-b1", "nested-b2":
		b := map[string]int{"nested-b0": 0, "nested-b1": 1, "nested-b2": 2}[*common.Unit]
		res.Bound = b
		nested(func(c Cfg) bool { return each(c, b, false, *pruneFlag) })
	case "dag4-orders": // every DAG on 4 stages x Sigma^4: every completion order (branching at quiescent points only)
		dags(4, 4, sigma, 0, true, *pruneFlag, nil)
	case "nested-orders":
		nested(func(c Cfg) bool { return each(c, 0, true, *pruneFlag) })
	case "nested-names-orders": // as nested-orders, the inner pipeline's stages bear the names of outer stages
		nested(func(c Cfg) bool { c.Alias = 1; return each(c, 0, true, *pruneFlag) })
	case "nested-names-b1":
		res.Bound = 1
		nested(func(c Cfg) bool { c.Alias = 1; return each(c, 1, false, *pruneFlag) })
	case "dag3-names-orders": // every DAG<=3 x Sigma^n x every adversarial naming scheme, all completion orders
		for aliasAll = 2; aliasAll < len(aliasSchemes); aliasAll++ {
			dags(1, 3, sigma, 0, true, *pruneFlag, nil)
		}
	case "dag3-names-b1":
		res.Bound = 1
		for aliasAll = 2; aliasAll < len(aliasSchemes); aliasAll++ {
			dags(1, 3, sigma, 1, false, *pruneFlag, nil)
		}
	case "dag3-errkinds-orders": // a failing task returns context.DeadlineExceeded / context.Canceled / a wrapped deadline / an interpreter exit status
		for errKind = 1; errKind <= 4; errKind++ {
			dags(1, 3, sigma, 0, true, *pruneFlag, func(outs []int) bool {
				for _, o := range outs {
					if o == 1 || o == 2 {
						return true
					}
				}
				return false
			})
		}
	case "nested-errkinds-orders":
		for errKind = 1; errKind <= 4; errKind++ {
			nested(func(c Cfg) bool { return each(c, 0, true, *pruneFlag) })
		}
	case "dag3-shared-orders": // every leaf stage refers to one task object
		sharedAll = true
		dags(1, 3, sigma, 0, true, *pruneFlag, nil)
	case "dag3-shared-b1":
		res.Bound = 1
		sharedAll = true
		dags(1, 3, sigma, 1, false, *pruneFlag, nil)
	case "nested-shared-orders":
		sharedAll = true
		nested(func(c Cfg) bool { return each(c, 0, true, *pruneFlag) })
	case "dag3-config-orders": // every DAG<=3 x Sigma^n built through the configuration builder, every completion order
		viaConfig = true
		dags(1, 3, sigma, 0, true, *pruneFlag, nil)
	case "dag3-config-b1":
		res.Bound = 1
		viaConfig = true
		dags(1, 3, sigma, 1, false, *pruneFlag, nil)
	case "nested-config-orders":
		viaConfig = true
		nested(func(c Cfg) bool { return each(c, 0, true, *pruneFlag) })
	case "dag3-attrs-orders": // task attributes that must not matter to the scheduler, one at a time
		for _, attrsAll = range []int{1, 2, 4, 8, 16} {
			dags(1, 3, sigma, 0, true, *pruneFlag, nil)
		}
	case "nested-attrs-orders":
		for _, attrsAll = range []int{1, 2} {
			nested(func(c Cfg) bool { return each(c, 0, true, *pruneFlag) })
		}
	case "shared-inner-orders": // two stages of one pipeline include the SAME pipeline object
		sharedInner(func(c Cfg) bool { return each(c, 0, true, *pruneFlag) })
	case "shared-inner-small-b1": // two independent stages including ONE one-stage pipeline object, every schedule within bound 1
		res.Bound = 1
		for _, o := range []int{0, 1, 2, 3, 4} {
			for _, allow := range []bool{false, true} {
				ig1 := mkGraph([][]int{{}}, []int{o}, []string{"x"})
				ig2 := mkGraph([][]int{{}}, []int{o}, []string{"x"})
				g := mkGraph([][]int{{}, {}}, []int{0, 0}, names)
				g.Stages[0].Inner, g.Stages[1].Inner = &ig1, &ig2
				g.Stages[0].Allow, g.Stages[1].Allow = allow, allow
				if each(Cfg{G: g, SharedInner: true}, 1, false, *pruneFlag) {
					return
				}
			}
		}
	case "shared-inner-b1":
		res.Bound = 1
		sharedInner(func(c Cfg) bool { return each(c, 1, false, *pruneFlag) })
	case "wide-b0": // sizes beyond the small ones: 17..65 stages, canonical order (tasks do not park)
		wide(func(c Cfg) bool { return each(c, 0, false, *pruneFlag) })
	case "cancel-nested-b0":
		cancelNested(func(c Cfg) bool { return each(c, 0, false, *pruneFlag) })
	case "cancel-nested-b1": // a condition that cannot be evaluated inside a nested pipeline; external Cancel with a nested pipeline in flight
		res.Bound = 1
		cancelNested(func(c Cfg) bool { return each(c, 1, false, *pruneFlag) })
	case "cancel-nested-b2":
		res.Bound = 2
		cancelNested(func(c Cfg) bool { return each(c, 2, false, *pruneFlag) })
	case "nested2-orders": // pipelines nested two levels deep, every completion order
		nested2(func(c Cfg) bool { return each(c, 0, true, *pruneFlag) })
	case "nested2-b1":
		res.Bound = 1
		nested2(func(c Cfg) bool { return each(c, 1, false, *pruneFlag) })
	case "skeleton5-orders":
		skeletons(func(c Cfg) bool { return each(c, 0, true, *pruneFlag) }, sigma)
	case "skeleton5-b0":
		skeletons(func(c Cfg) bool { return each(c, 0, false, *pruneFlag) }, sigma)
	case "quiesc4": // C04: explicit-state search over completion orders, DAG<=4
		dags(1, 4, sigma, 0, true, *pruneFlag, nonOK(1))
	case "quiesc3-b1": // C04 under fine-grained schedules: the invariant at every quiescent state of every bound-1 schedule
		res.Bound = 1
		dags(1, 3, sigma, 1, false, *pruneFlag, nil)
	case "quiesc3-b2":
		res.Bound = 2
		dags(1, 3, sigma, 2, false, *pruneFlag, nil)
	case "quiesc4-full":
		dags(1, 4, sigma, 0, true, *pruneFlag, nil)
	case "quiesc-nested":
		nested(func(c Cfg) bool { return each(c, 0, true, *pruneFlag) })
	case "quiesc-skeleton5":
		skeletons(func(c Cfg) bool { return each(c, 0, true, *pruneFlag) }, sigma)
	case "cancel-fake-b1": // external Cancel / condition error with the fake runner
		res.Bound = 1
		cancelFamily(func(c Cfg) bool { return each(c, 1, false, *pruneFlag) }, 3)
	case "cancel-fake-b2":
		res.Bound = 2
		cancelFamily(func(c Cfg) bool { return each(c, 2, false, *pruneFlag) }, 3)
	default:
		fmt.Fprintln(os.Stderr, "unknown unit", *common.Unit)
		os.Exit(2)
	}
}

// nested: outer DAG on <=3 stages with one stage replaced by an inner pipeline of <=2 stages.
func nested(f func(Cfg) bool) {
	inner := []string{"x", "y"}
	for n := 1; n <= 3; n++ {
		for _, deps := range allDAGs(n) {
			for pos := 0; pos < n; pos++ {
				for in := 1; in <= 2; in++ {
					for _, ideps := range allDAGs(in) {
						stop := false
						// outcomes: outer stages ok except one choice each from {ok, fail}; inner from Sigma
						forEachOutcome(n, []int{0, 1}, func(outs []int) {
							if stop || outs[pos] != 0 {
								return
							}
							forEachOutcome(in, []int{0, 1, 2, 3}, func(iouts []int) {
								if stop {
									return
								}
								g := mkGraph(deps, outs, names)
								ig := mkGraph(ideps, iouts, inner)
								g.Stages[pos].Inner = &ig
								for _, allow := range []bool{false, true} {
									g2 := g
									g2.Stages = append([]StageCfg{}, g.Stages...)
									g2.Stages[pos].Allow = allow
									if f(Cfg{G: g2}) {
										stop = true
										return
									}
								}
							})
						})
						if stop {
							return
						}
					}
				}
			}
		}
	}
}

// nested2: outer DAG on <=2 stages, one of them an inner pipeline of <=2 stages, one of which is an
// innermost pipeline of <=2 stages (outcomes from Sigma at the innermost level, ok elsewhere, the two
// enclosing pipeline stages with and without allow_failure).
func nested2(f func(Cfg) bool) {
	inner, innermost := []string{"x", "y"}, []string{"u", "v"}
	for n := 1; n <= 2; n++ {
		for _, deps := range allDAGs(n) {
			for pos := 0; pos < n; pos++ {
				for in := 1; in <= 2; in++ {
					for _, ideps := range allDAGs(in) {
						for ipos := 0; ipos < in; ipos++ {
							for im := 1; im <= 2; im++ {
								for _, mdeps := range allDAGs(im) {
									stop := false
									forEachOutcome(im, []int{0, 1, 2, 3}, func(mouts []int) {
										if stop {
											return
										}
										for _, allow := range []int{0, 1, 2} {
											g := mkGraph(deps, make([]int, n), names)
											ig := mkGraph(ideps, make([]int, in), inner)
											mg := mkGraph(mdeps, mouts, innermost)
											ig.Stages[ipos].Inner = &mg
											ig.Stages[ipos].Allow = allow == 1
											g.Stages[pos].Inner = &ig
											g.Stages[pos].Allow = allow == 2
											if f(Cfg{G: g}) {
												stop = true
												return
											}
										}
									})
									if stop {
										return
									}
								}
							}
						}
					}
				}
			}
		}
	}
}

// skeletons: 5-stage series-parallel shapes x Sigma^5.
func skeletons(f func(Cfg) bool, sigma []int) {
	shapes := [][][]int{
		{{}, {0}, {1}, {2}, {3}},         // chain
		{{}, {0}, {0}, {0}, {0}},         // fan-out
		{{}, {}, {}, {}, {0, 1, 2, 3}},   // fan-in
		{{}, {0}, {0}, {1, 2}, {3}},      // diamond + tail
		{{}, {0}, {0}, {1, 2}, {2}},      // two diamonds sharing a node (c)
		{{}, {}, {0, 1}, {0, 1}, {2, 3}}, // two layers fully connected
	}
	for _, deps := range shapes {
		stop := false
		forEachOutcome(5, sigma, func(outs []int) {
			if stop {
				return
			}
			if f(Cfg{G: mkGraph(deps, outs, names)}) {
				stop = true
			}
		})
		if stop {
			return
		}
	}
}

// cancelFamily: DAG<=n with all-ok outcomes plus (a) one stage whose condition cannot be
// evaluated, (b) an external Cancel.
// sharedInner: outer DAG on 2..3 stages, two of them include one and the same inner pipeline (<=2 stages,
// outcomes from Sigma); the remaining outer stage, if any, is a plain task.
func sharedInner(f func(Cfg) bool) {
	inner := []string{"x", "y"}
	for n := 2; n <= 3; n++ {
		for _, deps := range allDAGs(n) {
			for p := 0; p < n; p++ {
				for q := p + 1; q < n; q++ {
					for in := 1; in <= 2; in++ {
						for _, ideps := range allDAGs(in) {
							stop := false
							forEachOutcome(in, []int{0, 1, 2, 3}, func(iouts []int) {
								if stop {
									return
								}
								for _, allow := range []bool{false, true} {
									g := mkGraph(deps, make([]int, n), names)
									ig1 := mkGraph(ideps, iouts, inner)
									ig2 := mkGraph(ideps, iouts, inner)
									g.Stages[p].Inner, g.Stages[q].Inner = &ig1, &ig2
									g.Stages[p].Allow, g.Stages[q].Allow = allow, allow
									if f(Cfg{G: g, SharedInner: true}) {
										stop = true
										return
									}
								}
							})
							if stop {
								return
							}
						}
					}
				}
			}
		}
	}
}

// wide: flat and one-level graphs with 17..65 stages.
func wide(f func(Cfg) bool) {
	for _, n := range []int{17, 20, 33, 65} {
		nm := make([]string, n)
		for i := range nm {
			nm[i] = fmt.Sprintf("s%02d", i)
		}
		for _, shape := range []string{"independent", "fan-out", "fan-in", "chain"} {
			for _, out := range []string{"ok", "all-fail", "all-allowed", "root-fails", "alternate"} {
				deps := make([][]int, n)
				outs := make([]int, n)
				for i := 0; i < n; i++ {
					switch shape {
					case "fan-out":
						if i > 0 {
							deps[i] = []int{0}
						}
					case "fan-in":
						if i == n-1 {
							for j := 0; j < n-1; j++ {
								deps[i] = append(deps[i], j)
							}
						}
					case "chain":
						if i > 0 {
							deps[i] = []int{i - 1}
						}
					}
					switch out {
					case "all-fail":
						outs[i] = 1
					case "all-allowed":
						outs[i] = 2
					case "root-fails":
						if i == 0 {
							outs[i] = 1
						}
					case "alternate":
						outs[i] = i % 4
					}
				}
				if f(Cfg{G: mkGraph(deps, outs, nm), NoPark: true}) {
					return
				}
			}
		}
	}
	// many stages that each include a pipeline of their own (a monorepo's `all` pipeline: one build -> test
	// pipeline per service), independent and as a fan-out behind one root
	for _, n := range []int{17} {
		for _, shape := range []string{"independent", "fan-out"} {
			for _, out := range []string{"ok", "alternate"} {
				nm := make([]string, n)
				deps := make([][]int, n)
				for i := range nm {
					nm[i] = fmt.Sprintf("s%02d", i)
					if shape == "fan-out" && i > 0 {
						deps[i] = []int{0}
					}
				}
				g := mkGraph(deps, make([]int, n), nm)
				for i := 0; i < n; i++ {
					if shape == "fan-out" && i == 0 {
						continue
					}
					iouts := []int{0, 0}
					if out == "alternate" {
						iouts = []int{0, i % 4}
					}
					ig := mkGraph([][]int{nil, {0}}, iouts, []string{fmt.Sprintf("b%02d", i), fmt.Sprintf("t%02d", i)})
					g.Stages[i].Inner = &ig
					g.Stages[i].Allow = out == "alternate" && i%2 == 0
				}
				if f(Cfg{G: g, NoPark: true}) {
					return
				}
			}
		}
	}
}

// cancelNested: outer DAG on <=2 stages, one of them a nested pipeline of <=2 stages; one inner stage has a
// condition that cannot be evaluated, or the run is cancelled from outside.
func cancelNested(f func(Cfg) bool) {
	inner := []string{"x", "y"}
	for n := 1; n <= 2; n++ {
		for _, deps := range allDAGs(n) {
			for pos := 0; pos < n; pos++ {
				for in := 1; in <= 2; in++ {
					for _, ideps := range allDAGs(in) {
						mk := func(ipos int) Cfg {
							g := mkGraph(deps, make([]int, n), names)
							ig := mkGraph(ideps, make([]int, in), inner)
							if ipos >= 0 {
								ig.Stages[ipos].Cond = "missing-cmd"
							}
							g.Stages[pos].Inner = &ig
							return Cfg{G: g}
						}
						for ipos := 0; ipos < in; ipos++ {
							if f(mk(ipos)) {
								return
							}
						}
						c := mk(-1)
						c.Cancel = "external"
						if f(c) {
							return
						}
					}
				}
			}
		}
	}
}

func cancelFamily(f func(Cfg) bool, nmax int) {
	for n := 1; n <= nmax; n++ {
		for _, deps := range allDAGs(n) {
			outs := make([]int, n)
			for pos := 0; pos < n; pos++ {
				g := mkGraph(deps, outs, names)
				g.Stages[pos].Cond = "missing-cmd"
				if f(Cfg{G: g}) {
					return
				}
			}
			if f(Cfg{G: mkGraph(deps, outs, names), Cancel: "external"}) {
				return
			}
		}
	}
}
