//go:build verif

package main

import (
	"fmt"
	"regexp"
	"strings"

	"github.com/taskctl/taskctl/internal/vh/common"
	"github.com/taskctl/taskctl/vrt"
)

// ---- C11 (schedule part): a dependent stage sees exactly its producer's output ----

var nonName = regexp.MustCompile("[^a-zA-Z0-9_]")

// outputVar is the reference model of the derived variable name.
func outputVar(t TaskCfg) string {
	if t.Export != "" {
		return t.Export
	}
	return nonName.ReplaceAllString(strings.ToUpper(t.Name)+"_OUTPUT", "_")
}

func judgeHandover(sc *Scenario, x *vrt.Execution) []verdict {
	var v []verdict
	byName := map[string]TaskCfg{}
	for _, t := range sc.Tasks {
		byName[t.Name] = t
	}
	for _, t := range sc.Tasks {
		if t.Reads == "" {
			continue
		}
		// the producer is the dependency whose variable is read
		var prod *TaskCfg
		for _, d := range t.Deps {
			p := byName[d]
			if p.SameAs != "" { // a stage running the task object of another entry: the task's own name and commands count
				p = byName[p.SameAs]
			}
			if outputVar(p) == t.Reads {
				prod = &p
			}
		}
		if prod == nil {
			continue
		}
		want := "got:" + t.Name + ":" + strings.Join(prod.Cmds, "+") + "+"
		got := ""
		for _, e := range x.Events {
			if e.Kind == "tok" && strings.HasPrefix(e.Arg, "got:"+t.Name+":") {
				got = e.Arg
			}
		}
		if got != want {
			v = append(v, verdict{"C11", "C11:consumer-sees-wrong-output", fmt.Sprintf("stage %s printed %q, its producer %s wrote %q", t.Name, got, prod.Name, want)})
		}
	}
	return v
}

func handoverUnits(res *common.Result, each func(Scenario, int) bool) bool {
	prod := func(name string, ncmd int, export string) TaskCfg {
		t := stdTask(name, 0, ncmd, false)
		t.Export = export
		return t
	}
	cons := func(name string, p TaskCfg, deps ...string) TaskCfg {
		t := TaskCfg{Name: name, FailAt: -1, Reads: outputVar(p), Deps: deps}
		return t
	}
	gen := func(bound func(n int) int) {
		for _, ncmd := range []int{1, 2} {
			for _, export := range []string{"", "MYVAR"} {
				p := prod("p.x", ncmd, export) // a name that needs character replacement
				shapes := [][]TaskCfg{
					{p, cons("c", p, "p.x")},
					{p, cons("c", p, "p.x"), stdTask("u", 0, 1, false)},
					{p, cons("c", p, "p.x"), cons("d", p, "p.x")},
					{p, stdTask("m", 0, 1, false), cons("c", p, "p.x", "m")},
				}
				for _, sh := range shapes {
					sc := Scenario{Mode: "pipeline", Tasks: sh}
					if each(sc, bound(len(sh))) {
						return
					}
				}
			}
		}
		// the producing task is used by two stages one after the other (with and without stage overrides, which
		// make the scheduler run a copy); the consumer depends on the later one and must see one run's output
		for _, ov := range []int{0, 1, 2, 3} {
			p := prod("p.x", 1, "")
			q := TaskCfg{Name: "q", FailAt: -1, SameAs: "p.x", Deps: []string{"p.x"}}
			if ov&1 != 0 {
				p.StageEnv = map[string]string{"WHO": "one"}
			}
			if ov&2 != 0 {
				q.StageEnv = map[string]string{"WHO": "two"}
			}
			if each(Scenario{Mode: "pipeline", Tasks: []TaskCfg{p, q, cons("c", p, "q")}}, bound(3)) {
				return
			}
		}
		// chain: c consumes p, d consumes c's output
		p := prod("p", 1, "")
		c := TaskCfg{Name: "c", FailAt: -1, Reads: outputVar(p), Deps: []string{"p"}}
		if each(Scenario{Mode: "pipeline", Tasks: []TaskCfg{p, c}}, bound(2)) {
			return
		}
	}
	switch *common.Unit {
	case "handover-q":
		res.Bound = 1
		theSeam.park = false
		gen(func(n int) int { return map[int]int{2: 2, 3: 1}[n] })
	case "handover-t":
		res.Bound = 3
		theSeam.park = false
		gen(func(n int) int { return map[int]int{2: 3, 3: 2}[n] })
	default:
		return false
	}
	return true
}
