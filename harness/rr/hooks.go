//go:build verif

package main

import (
	"fmt"
	"strings"

	"github.com/taskctl/taskctl/internal/vh/common"
	"github.com/taskctl/taskctl/vrt"
)

// ---- C14: execution-context hooks ----

func hookCtx(name string, upFail int) CtxCfg {
	return CtxCfg{Name: name, Up: []string{"up1:" + name, "up2:" + name}, Down: []string{"down:" + name}, Before: []string{"cb:" + name}, After: []string{"ca:" + name}, UpFail: upFail > 0, UpFailFirst: upFail == 2}
}

func svcToken(cmd string) string {
	// "echo up1:c1" / "echo up2:c1; exit 1" -> up1:c1
	c := strings.TrimPrefix(cmd, "echo ")
	if i := strings.Index(c, ";"); i >= 0 {
		c = c[:i]
	}
	return c
}

// judgeHooks checks the C14 clauses on the event log of one execution.
func judgeHooks(sc *Scenario, x *vrt.Execution) []verdict {
	if len(sc.Ctxs) == 0 {
		return nil
	}
	var v []verdict
	add := func(key, desc string) { v = append(v, verdict{"C14", "C14:" + key, desc}) }
	ctxOf := map[string]string{}
	taskOfTok := map[string]string{}
	for _, t := range sc.Tasks {
		ctxOf[t.Name] = t.Ctx
		for _, tok := range append(append(append([]string{}, t.Before...), t.Cmds...), t.After...) {
			taskOfTok[tok] = t.Name
		}
		taskOfTok["cond:"+t.Name] = t.Name
	}
	ctxCfg := map[string]CtxCfg{}
	for _, c := range sc.Ctxs {
		ctxCfg[c.Name] = c
	}
	// per context: positions of up enters/exits, first other event
	upEnter := map[string]int{}
	lastUpExit := map[string]int{}
	downCount := map[string]int{}
	firstOther := map[string]int{}
	lastTaskEvent := -1
	finishCall := -1
	downPos := map[string]int{}
	used := map[string]bool{}
	// per thread sequence of hook/task events between run.call and run.ret
	type runRec struct {
		task string
		seq  []string
	}
	cur := map[int]*runRec{}
	var runs []*runRec
	pendingSvc := map[int]string{}
	for i, e := range x.Events {
		switch e.Kind {
		case "run.call":
			r := &runRec{task: e.Arg}
			cur[e.T] = r
			runs = append(runs, r)
			if c := ctxOf[e.Arg]; c != "" {
				used[c] = true
			}
		case "run.ret":
			parts := strings.Split(e.Arg, "|")
			if r := cur[e.T]; r != nil {
				r.seq = append(r.seq, "ret:"+parts[1])
			}
			delete(cur, e.T)
		case "finish.call":
			finishCall = i
		case "enter:runServiceCommand":
			tok := svcToken(e.Arg)
			pendingSvc[e.T] = tok
			kind, cname := tok[:strings.Index(tok, ":")], tok[strings.Index(tok, ":")+1:]
			switch {
			case strings.HasPrefix(kind, "up"):
				upEnter[tok]++
			case kind == "down":
				downCount[cname]++
				downPos[cname] = i
			default:
				if _, ok := firstOther[cname]; !ok {
					firstOther[cname] = i
				}
				lastTaskEvent = i
			}
			if r := cur[e.T]; r != nil {
				r.seq = append(r.seq, tok)
			}
		case "exit:runServiceCommand":
			tok := pendingSvc[e.T]
			if strings.HasPrefix(tok, "up") {
				lastUpExit[tok[strings.Index(tok, ":")+1:]] = i
			}
		case "tok":
			tn := taskOfTok[e.Arg]
			if c := ctxOf[tn]; c != "" {
				if _, ok := firstOther[c]; !ok {
					firstOther[c] = i
				}
			}
			lastTaskEvent = i
			if r := cur[e.T]; r != nil {
				r.seq = append(r.seq, "t:"+e.Arg)
			}
		}
	}
	for cname, c := range ctxCfg {
		if !used[cname] {
			if downCount[cname] > 0 || upEnter["up1:"+cname] > 0 {
				add("unused-context-hooks", fmt.Sprintf("hooks of context %s ran although no task used it", cname))
			}
			continue
		}
		for _, u := range c.Up {
			n := upEnter[u]
			// with a failing up the second command may legitimately be skipped or run: only "at most once"
			if n > 1 {
				add("up-twice", fmt.Sprintf("up command %s ran %d times", u, n))
			}
			if n == 0 && !c.UpFail {
				add("up-missing", fmt.Sprintf("up command %s never ran although context %s was used", u, cname))
			}
		}
		if fo, ok := firstOther[cname]; ok {
			if c.UpFail {
				add("ran-after-failed-up", fmt.Sprintf("a hook or command of a task in context %s ran (%s) although up failed", cname, x.Events[fo]))
			} else if le, ok2 := lastUpExit[cname]; !ok2 || le > fo {
				add("before-up-finished", fmt.Sprintf("%s ran before the up commands of context %s had completed", x.Events[fo], cname))
			}
		}
		if sc.Finish {
			if downCount[cname] != 1 {
				add("down-count", fmt.Sprintf("down of used context %s ran %d times", cname, downCount[cname]))
			} else if downPos[cname] < lastTaskEvent || downPos[cname] < finishCall {
				add("down-early", fmt.Sprintf("down of context %s ran before the last task event / before shutdown", cname))
			}
		}
	}
	for _, r := range runs {
		cname := ctxOf[r.task]
		if cname == "" {
			continue
		}
		c := ctxCfg[cname]
		ret := ""
		var body []string
		for _, s := range r.seq {
			if strings.HasPrefix(s, "ret:") {
				ret = strings.TrimPrefix(s, "ret:")
			} else if !strings.HasPrefix(s, "up") {
				body = append(body, s)
			}
		}
		if c.UpFail {
			if ret != "err" {
				add("run-ok-after-failed-up", fmt.Sprintf("Run(%s) returned %s although up of its context failed", r.task, ret))
			}
			continue
		}
		// expected shape: cb, task events..., ca  (each hook exactly once)
		nb, na := 0, 0
		firstTask, lastTask, posB, posA := -1, -1, -1, -1
		for i, s := range body {
			switch {
			case s == "cb:"+cname:
				nb++
				posB = i
			case s == "ca:"+cname:
				na++
				posA = i
			case strings.HasPrefix(s, "t:"):
				if firstTask < 0 {
					firstTask = i
				}
				lastTask = i
			}
		}
		if nb != 1 {
			add("before-count", fmt.Sprintf("context before-hook ran %d times for one execution of %s: %v", nb, r.task, body))
		} else if firstTask >= 0 && posB > firstTask {
			add("before-late", fmt.Sprintf("context before-hook ran after a command of %s: %v", r.task, body))
		}
		if na != 1 {
			add("after-count", fmt.Sprintf("context after-hook ran %d times for one execution of %s: %v", na, r.task, body))
		} else if posA < lastTask {
			add("after-early", fmt.Sprintf("context after-hook ran before the last command of %s: %v", r.task, body))
		}
	}
	return v
}

func hookUnits(res *common.Result, each func(Scenario, int) bool) bool {
	shapes := []string{"plain", "hooks", "cond", "fail", "condfalse", "beforefail"}
	mkTask := func(name, shape, ctx string) TaskCfg {
		t := TaskCfg{Name: name, Cmds: []string{name + ".c1"}, Ctx: ctx, FailAt: -1}
		switch shape {
		case "hooks":
			t.Before, t.After = []string{name + ".b"}, []string{name + ".a"}
		case "cond":
			t.Cond = "true"
		case "fail":
			t.FailAt = 0
		case "condfalse": // the task is skipped: its context's before and after hooks still pair up
			t.Cond = "false"
		case "beforefail": // the task's own before hook fails: no command runs, the context's after hook still does
			t.Before, t.BeforeFail = []string{name + ".b"}, true
		}
		return t
	}
	gen := func(nmax int, bound func(n int) int, modes []string) bool {
		names := []string{"p", "q", "r", "s"}
		for n := 1; n <= nmax; n++ {
			for _, mode := range modes {
				for _, twoCtx := range []bool{false, true} {
					if twoCtx && n < 2 {
						continue
					}
					for _, upFail := range []int{0, 1, 2} { // up fine / its last command fails / its first command fails and the next one succeeds
						// task shapes: all tasks the same shape, plus one mixed assignment
						var assigns [][]string
						for _, s := range shapes {
							a := make([]string, n)
							for i := range a {
								a[i] = s
							}
							assigns = append(assigns, a)
						}
						if n >= 2 {
							mixed := make([]string, n)
							for i := range mixed {
								mixed[i] = shapes[(i+1)%len(shapes)]
							}
							assigns = append(assigns, mixed)
						}
						for _, a := range assigns {
							sc := Scenario{Mode: mode, Finish: true, Unused: true}
							sc.Ctxs = []CtxCfg{hookCtx("c1", upFail)}
							if twoCtx {
								sc.Ctxs = append(sc.Ctxs, hookCtx("c2", 0))
							}
							for i := 0; i < n; i++ {
								cx := "c1"
								if twoCtx && i%2 == 1 {
									cx = "c2"
								}
								t := mkTask(names[i], a[i], cx)
								if mode == "pipeline" && i > 0 && i == n-1 && n >= 3 {
									t.Deps = []string{names[0]}
								}
								sc.Tasks = append(sc.Tasks, t)
							}
							if each(sc, bound(n)) {
								return true
							}
							if twoCtx && upFail == 0 {
								// every used context is shut down, also when a down command fails
								sc2 := sc
								sc2.Ctxs = append([]CtxCfg{}, sc.Ctxs...)
								for i := range sc2.Ctxs {
									sc2.Ctxs[i].DownFail = true
								}
								if each(sc2, bound(n)) {
									return true
								}
							}
						}
					}
				}
			}
		}
		return true
	}
	switch *common.Unit {
	case "hooks-q":
		res.Bound = 2
		theSeam.park = false
		gen(3, func(n int) int { return map[int]int{1: 2, 2: 1, 3: 0}[n] }, []string{"par", "seq", "pipeline"})
	case "hooks-t":
		res.Bound = 3
		theSeam.park = false
		gen(4, func(n int) int { return map[int]int{1: 3, 2: 2, 3: 1, 4: 0}[n] }, []string{"par", "seq", "pipeline"})
	default:
		return false
	}
	return true
}
