//go:build verif

package main

import (
	"github.com/taskctl/taskctl/internal/vh/common"
	"github.com/taskctl/taskctl/internal/vrt"
)

func judgeHooks(sc *Scenario, x *vrt.Execution) []verdict { return nil }

func judgeHandover(sc *Scenario, x *vrt.Execution) []verdict { return nil }

func hookUnits(res *common.Result, each func(Scenario, int) bool) bool { return false }

func handoverUnits(res *common.Result, each func(Scenario, int) bool) bool { return false }
