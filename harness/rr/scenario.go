//go:build verif

package main

import (
	"fmt"
	"strings"
)

// TaskCfg describes one generated task. Every command is `echo <token>` so that it is observed at
// the runner's stdout seam; FailAt>=0 makes that command `echo <token>; exit 1`.
type TaskCfg struct {
	Name       string            `json:"name"`
	Before     []string          `json:"before,omitempty"`
	Cmds       []string          `json:"cmds,omitempty"`
	After      []string          `json:"after,omitempty"`
	Cond       string            `json:"cond,omitempty"` // "", "true", "false"
	Ctx        string            `json:"ctx,omitempty"`
	FailAt     int               `json:"fail_at"` // -1: none
	Allow      bool              `json:"allow,omitempty"`
	Deps       []string          `json:"deps,omitempty"` // pipeline mode: stage dependencies (stage name == task name)
	Export     string            `json:"export,omitempty"`
	Reads      string            `json:"reads,omitempty"`       // name of an environment variable the last command echoes
	StageEnv   map[string]string `json:"stage_env,omitempty"`   // pipeline mode: env override given on the stage
	BeforeFail bool              `json:"before_fail,omitempty"` // the task's own before hook exits non-zero
	SameAs     string            `json:"same_as,omitempty"`     // this entry runs the very task object of the named entry once more
}

// CtxCfg describes one execution context.
type CtxCfg struct {
	Name        string   `json:"name"`
	Up          []string `json:"up,omitempty"`
	Down        []string `json:"down,omitempty"`
	Before      []string `json:"before,omitempty"`
	After       []string `json:"after,omitempty"`
	UpFail      bool     `json:"up_fail,omitempty"`
	DownFail    bool     `json:"down_fail,omitempty"`     // the down command exits non-zero
	UpFailFirst bool     `json:"up_fail_first,omitempty"` // with UpFail: the first up command fails (and a succeeding one follows) instead of the last
}

// Scenario is one configuration of the real-runner harness.
type Scenario struct {
	Tasks       []TaskCfg `json:"tasks"`
	Ctxs        []CtxCfg  `json:"ctxs,omitempty"`
	Mode        string    `json:"mode"` // "par": one thread per task calling Run; "seq": one thread; "pipeline": through the scheduler
	Cancellers  int       `json:"cancellers,omitempty"`
	Twice       bool      `json:"twice,omitempty"`        // each canceller calls Cancel twice in a row
	ViaSched    bool      `json:"via_sched,omitempty"`    // cancel through Scheduler.Cancel
	CondErr     string    `json:"cond_err,omitempty"`     // pipeline mode: this stage's condition cannot be evaluated
	Finish      bool      `json:"finish,omitempty"`       // call Finish at the end
	Overlap     bool      `json:"overlap,omitempty"`      // C04: the tasks are independent and must all be inside a command at the first quiescent point
	DirectAfter string    `json:"direct_after,omitempty"` // pipeline mode: after the pipeline, this task is run once more directly
	Unused      bool      `json:"unused,omitempty"`       // an extra context nobody uses exists
	Index       int64     `json:"index"`
}

func (s Scenario) String() string {
	var parts []string
	for _, t := range s.Tasks {
		p := t.Name + "(" + strings.Join(append(append(append([]string{}, t.Before...), t.Cmds...), t.After...), " ") + ")"
		if t.Cond != "" {
			p += "[cond=" + t.Cond + "]"
		}
		if t.Ctx != "" {
			p += "@" + t.Ctx
		}
		if t.FailAt >= 0 {
			p += fmt.Sprintf("[fail@%d]", t.FailAt)
		}
		if t.Allow {
			p += "[allow]"
		}
		if len(t.Deps) > 0 {
			p += "<-" + strings.Join(t.Deps, ",")
		}
		if t.BeforeFail {
			p += "[before fails]"
		}
		if t.SameAs != "" {
			p += "[same object as " + t.SameAs + "]"
		}
		if len(t.StageEnv) > 0 {
			p += fmt.Sprintf("[stage env %v]", t.StageEnv)
		}
		if t.Reads != "" {
			p += "[echoes $" + t.Reads + "]"
		}
		parts = append(parts, p)
	}
	r := s.Mode + ": " + strings.Join(parts, " ")
	for _, c := range s.Ctxs {
		r += fmt.Sprintf(" ctx %s{up:%v down:%v before:%v after:%v upfail:%v}", c.Name, c.Up, c.Down, c.Before, c.After, map[bool]string{false: fmt.Sprint(c.UpFail), true: "first"}[c.UpFail && c.UpFailFirst])
	}
	if s.Cancellers > 0 {
		r += fmt.Sprintf(" +%d canceller(s)", s.Cancellers)
		if s.Twice {
			r += " twice"
		}
		if s.ViaSched {
			r += " via scheduler"
		}
	}
	if s.CondErr != "" {
		r += " conderr=" + s.CondErr
	}
	if s.Finish {
		r += " +finish"
	}
	return r
}

// shape: canonical identification of a scenario class used in violation keys: the number of
// tasks, the mode and the cancel set-up, not the token names.
func (s Scenario) shape() string {
	r := fmt.Sprintf("%s;tasks=%d", s.Mode, len(s.Tasks))
	if s.Cancellers > 0 {
		r += fmt.Sprintf(";cancellers=%d", s.Cancellers)
		if s.Twice {
			r += ";twice"
		}
		if s.ViaSched {
			r += ";via-sched"
		}
	}
	if s.CondErr != "" {
		r += ";conderr"
	}
	for _, t := range s.Tasks {
		if t.SameAs != "" {
			r += ";same-object"
			break
		}
	}
	return r
}
