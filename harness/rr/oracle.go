//go:build verif

package main

import (
	"fmt"
	"strings"

	"github.com/taskctl/taskctl/pkg/output"
	"github.com/taskctl/taskctl/vrt"
)

func resetOutput() { output.VerifReset() }

func panicClass(x *vrt.Execution) string {
	switch x.Outcome {
	case vrt.Panicked:
		v := x.PanicVal
		if i := strings.Index(v, "0x"); i >= 0 {
			v = v[:i]
		}
		return "panic:" + strings.TrimSpace(v)
	case vrt.Deadlock, vrt.Livelock:
		// which call never returns
		var who []string
		for _, b := range x.Blocked {
			// T3(canceller):blocked:chan receive
			parts := strings.SplitN(b, ":", 3)
			name := parts[0]
			if i := strings.Index(name, "("); i >= 0 {
				name = strings.TrimSuffix(name[i+1:], ")")
			}
			if strings.HasPrefix(name, "run:") {
				name = "run"
			}
			if len(parts) == 3 {
				who = append(who, name+":"+parts[2])
			}
		}
		return x.Outcome + ":" + strings.Join(uniq(who), ",")
	}
	return x.Outcome
}

func uniq(in []string) []string {
	seen := map[string]bool{}
	var out []string
	for _, s := range in {
		if !seen[s] {
			seen[s] = true
			out = append(out, s)
		}
	}
	return out
}

// judge evaluates every oracle that applies to the scenario on one execution.
func judge(sc *Scenario, x *vrt.Execution) []verdict {
	var v []verdict
	add := func(p, key, desc string) { v = append(v, verdict{p, key, desc}) }
	cancelling := sc.Cancellers > 0 || sc.CondErr != ""

	if x.Outcome != vrt.Completed {
		desc := fmt.Sprintf("%s %s; threads: %v; %s", x.Outcome, x.PanicVal, x.Blocked, x.Stack)
		if cancelling {
			add("C12", "C12:"+panicClass(x), desc)
			if sc.Mode == "pipeline" {
				add("C03", "C03:"+panicClass(x), desc)
			}
		}
		if sc.Mode == "pipeline" && !cancelling {
			add("C03", "C03:real-"+panicClass(x), desc) // a pipeline whose commands terminate must return
		}
		add("C14", "C14:"+panicClass(x), desc)
		add("C11", "C11:"+panicClass(x), desc)
		return v
	}

	// per task: tokens seen, Run results
	toks := map[string]bool{}
	count := map[string]int{}
	runRet := map[string]string{}
	runCalls := map[string]int{}
	cancelReturned := false
	inCommand := map[int]string{} // thread -> command it is inside
	for _, e := range x.Events {
		switch e.Kind {
		case "tok":
			toks[e.Arg] = true
			count[e.Arg]++
			inCommand[e.T] = e.Arg
			if cancelReturned {
				add("C12", "C12:command-after-cancel-returned", fmt.Sprintf("command %q started after a Cancel call had returned", e.Arg))
			}
		case "tokend":
			delete(inCommand, e.T)
		case "enter:runServiceCommand": // a context hook command (up, before, after) is a command too
			if tok := svcToken(e.Arg); !strings.HasPrefix(tok, "down:") {
				inCommand[e.T] = tok
				if cancelReturned {
					add("C12", "C12:command-after-cancel-returned", fmt.Sprintf("context hook command %q started after a Cancel call had returned", tok))
				}
			}
		case "exit:runServiceCommand":
			delete(inCommand, e.T)
		case "cancel.ret":
			cancelReturned = true
			for _, c := range inCommand {
				add("C12", "C12:command-running-after-cancel-returned", fmt.Sprintf("Cancel returned while command %q was still running", c))
			}
		case "run.call":
			runCalls[e.Arg]++
		case "run.ret":
			p := strings.SplitN(e.Arg, "|", 2)
			runRet[p[0]] = p[1]
		}
	}
	if cancelling {
		for _, tc := range sc.Tasks {
			missing := ""
			for _, t := range append(append([]string{}, tc.Before...), tc.Cmds...) {
				if !toks[t] {
					missing = t
					break
				}
			}
			if missing == "" {
				continue
			}
			if sc.Mode == "pipeline" {
				// the task result is visible through the stage: a stage whose task was interrupted
				// or never started must not be reported as done
				for _, e := range x.Events {
					if e.Kind == "stage" && strings.HasPrefix(e.Arg, tc.Name+"=") {
						if strings.HasPrefix(e.Arg, tc.Name+"=3|") { // StatusDone
							add("C12", "C12:interrupted-stage-reported-done", fmt.Sprintf("stage %s did not run command %q but is reported done", tc.Name, missing))
						}
					}
				}
				continue
			}
			if ret, ok := runRet[tc.Name]; ok && strings.HasPrefix(ret, "nil|errored=false") {
				add("C12", "C12:interrupted-run-reports-success", fmt.Sprintf("Run(%s) did not run command %q but returned nil and the task is not marked errored", tc.Name, missing))
			}
		}
		if sc.Mode == "pipeline" {
			for t, n := range runCalls {
				_ = t
				_ = n
			}
			// a command may run once per stage that refers to its task (stages may share one task object)
			allowed := map[string]int{}
			for _, tc := range sc.Tasks {
				for _, t := range append(append(append([]string{}, tc.Before...), tc.Cmds...), tc.After...) {
					allowed[t]++
				}
			}
			for tok, n := range count {
				if n > 1 && n > allowed[tok] {
					add("C03", "C03:twice", fmt.Sprintf("command %q executed %d times", tok, n))
				}
			}
		}
	}
	v = append(v, judgeHooks(sc, x)...)
	v = append(v, judgeHandover(sc, x)...)
	v = append(v, judgeStageEnv(sc, x)...)
	return v
}
