//go:build verif

// Harness "rr": the real (instrumented) runner.TaskRunner, ExecutionContext, output decorators and
// scheduler explored under the vrt scheduler. Commands are `echo <token>` observed (and parked) at
// the runner's stdout seam; context hooks are observed through the runServiceCommand probe.
// Serves C03 (cancelled family), C11 (hand-over), C12 (cancel hand-shake), C14 (context hooks).
package main

import (
	"bytes"
	"fmt"
	"io"
	"os"
	"sort"
	"strings"

	"github.com/sirupsen/logrus"

	"github.com/taskctl/taskctl/internal/vh/common"
	"github.com/taskctl/taskctl/pkg/output"
	"github.com/taskctl/taskctl/pkg/runner"
	"github.com/taskctl/taskctl/pkg/scheduler"
	"github.com/taskctl/taskctl/pkg/task"
	"github.com/taskctl/taskctl/pkg/variables"
	"github.com/taskctl/taskctl/vrt"
	"github.com/taskctl/taskctl/vrt/vsync"
)

// ---- stdout seam ----

type seam struct {
	bufs map[int][]byte
	park bool
}

var theSeam = &seam{bufs: map[int][]byte{}, park: true}

func (s *seam) Write(p []byte) (int, error) {
	id := vrt.ThreadID()
	buf := append(s.bufs[id], p...)
	for {
		i := bytes.IndexByte(buf, '\n')
		if i < 0 {
			break
		}
		line := string(buf[:i])
		buf = buf[i+1:]
		s.bufs[id] = buf
		if line == "" {
			continue
		}
		vrt.Emit("tok", line)
		if s.park {
			vrt.Park("tok:" + line)
		}
		vrt.Emit("tokend", line)
	}
	s.bufs[id] = buf
	return len(p), nil
}

// ---- building the real objects ----

func cmdFor(tok string, fail bool) string {
	c := "echo " + tok
	if fail {
		c += "; exit 1"
	}
	return c
}

func cmds(toks []string) []string {
	var out []string
	for _, t := range toks {
		out = append(out, cmdFor(t, false))
	}
	return out
}

type world struct {
	r     *runner.TaskRunner
	tasks map[string]*task.Task
	ctxs  map[string]*runner.ExecutionContext
}

func buildWorld(sc *Scenario) *world {
	w := &world{tasks: map[string]*task.Task{}, ctxs: map[string]*runner.ExecutionContext{}}
	for _, c := range sc.Ctxs {
		up := cmds(c.Up)
		if c.UpFail && len(up) > 0 {
			if c.UpFailFirst {
				up[0] += "; exit 1"
			} else {
				up[len(up)-1] += "; exit 1"
			}
		}
		down := cmds(c.Down)
		if c.DownFail && len(down) > 0 {
			down[len(down)-1] += "; exit 1"
		}
		w.ctxs[c.Name] = runner.NewExecutionContext(nil, "", variables.NewVariables(), up, down, cmds(c.Before), cmds(c.After))
	}
	if sc.Unused {
		w.ctxs["unused"] = runner.NewExecutionContext(nil, "", variables.NewVariables(), cmds([]string{"up:unused"}), cmds([]string{"down:unused"}), nil, nil)
	}
	// wired the way the CLI wires it: contexts and a variables container shared by the runner and its compiler
	r, err := runner.NewTaskRunner(runner.WithContexts(w.ctxs), runner.WithVariables(variables.NewVariables()))
	if err != nil {
		panic(err)
	}
	r.Stdout = theSeam
	r.Stderr = io.Discard
	r.OutputFormat = output.FormatRaw
	w.r = r
	for _, tc := range sc.Tasks {
		if tc.SameAs != "" {
			w.tasks[tc.Name] = w.tasks[tc.SameAs]
			continue
		}
		t := task.NewTask()
		t.Name = tc.Name
		t.Context = tc.Ctx
		t.AllowFailure = tc.Allow
		t.Before = cmds(tc.Before)
		if tc.BeforeFail && len(t.Before) > 0 {
			t.Before[len(t.Before)-1] += "; exit 1"
		}
		t.After = cmds(tc.After)
		t.ExportAs = tc.Export
		for i, c := range tc.Cmds {
			t.Commands = append(t.Commands, cmdFor(c, i == tc.FailAt))
		}
		if tc.Reads != "" {
			t.Commands = append(t.Commands, "echo \"got:"+tc.Name+":${"+tc.Reads+"//$'\\n'/+}\"")
		}
		switch tc.Cond {
		case "true":
			t.Condition = "echo cond:" + tc.Name
		case "false":
			t.Condition = "echo cond:" + tc.Name + "; exit 1"
		}
		w.tasks[tc.Name] = t
	}
	return w
}

func errStr(err error) string {
	if err == nil {
		return "nil"
	}
	return "err"
}

func body(sc *Scenario) func() {
	return func() {
		theSeam.bufs = map[int][]byte{}
		resetOutput()
		w := buildWorld(sc)
		runOne := func(name string) {
			t := w.tasks[name]
			vrt.Emit("run.call", name)
			err := w.r.Run(t)
			vrt.Emit("run.ret", fmt.Sprintf("%s|%s|errored=%v|skipped=%v", name, errStr(err), t.Errored, t.Skipped))
		}
		var sd *scheduler.Scheduler
		var g *scheduler.ExecutionGraph
		if sc.Mode == "pipeline" {
			var stages []*scheduler.Stage
			for _, tc := range orderByDeps(sc.Tasks) {
				st := &scheduler.Stage{Name: tc.Name, Task: w.tasks[tc.Name], DependsOn: append([]string{}, tc.Deps...)}
				if sc.CondErr == tc.Name {
					st.Condition = "missing-cmd"
				}
				if len(tc.StageEnv) > 0 {
					st.Env = variables.FromMap(tc.StageEnv)
				}
				stages = append(stages, st)
			}
			var err error
			g, err = scheduler.NewExecutionGraph(stages...)
			if err != nil {
				vrt.Emit("builderr", err.Error())
				return
			}
			sd = scheduler.NewScheduler(&obsRunner{w.r})
		}
		var wg vsync.WaitGroup
		for i := 0; i < sc.Cancellers; i++ {
			wg.Add(1)
			vrt.GoExternal("canceller", func() {
				n := 1
				if sc.Twice {
					n = 2
				}
				for k := 0; k < n; k++ {
					vrt.Emit("cancel.call", "")
					if sc.ViaSched && sd != nil {
						sd.Cancel()
					} else {
						w.r.Cancel()
					}
					vrt.Emit("cancel.ret", "")
				}
				wg.Done()
			})
		}
		switch sc.Mode {
		case "par":
			for _, tc := range sc.Tasks {
				name := tc.Name
				wg.Add(1)
				vrt.GoNamed("run:"+name, func() {
					runOne(name)
					wg.Done()
				})
			}
		case "seq":
			for _, tc := range sc.Tasks {
				runOne(tc.Name)
			}
		case "pipeline":
			err := sd.Schedule(g)
			vrt.Emit("sched.ret", errStr(err))
			var ns []string
			for n := range g.Nodes() {
				ns = append(ns, n)
			}
			sort.Strings(ns)
			for _, n := range ns {
				st, _ := g.Node(n)
				vrt.Emit("stage", fmt.Sprintf("%s=%d|errored=%v", n, st.Status, st.Task.Errored))
			}
			if sc.DirectAfter != "" {
				runOne(sc.DirectAfter)
			}
		}
		wg.Wait()
		if sc.Finish {
			vrt.Emit("finish.call", "")
			w.r.Finish()
			vrt.Emit("finish.ret", "")
		}
		vrt.Emit("end", "")
	}
}

// obsRunner makes Run calls issued by the scheduler visible in the event log.
type obsRunner struct{ r *runner.TaskRunner }

func (o *obsRunner) Run(t *task.Task) error {
	vrt.Emit("run.call", t.Name)
	err := o.r.Run(t)
	vrt.Emit("run.ret", fmt.Sprintf("%s|%s|errored=%v|skipped=%v", t.Name, errStr(err), t.Errored, t.Skipped))
	return err
}
func (o *obsRunner) Cancel() { o.r.Cancel() }
func (o *obsRunner) Finish() { o.r.Finish() }

func orderByDeps(ts []TaskCfg) []TaskCfg {
	done := map[string]bool{}
	var out []TaskCfg
	for len(out) < len(ts) {
		progress := false
		for _, t := range ts {
			if done[t.Name] {
				continue
			}
			ok := true
			for _, d := range t.Deps {
				if !done[d] {
					ok = false
				}
			}
			if ok {
				done[t.Name] = true
				out = append(out, t)
				progress = true
			}
		}
		if !progress {
			panic("cyclic scenario")
		}
	}
	return out
}

type replayFile struct {
	Harness  string   `json:"harness"`
	Property string   `json:"property"`
	Unit     string   `json:"unit"`
	Sc       Scenario `json:"scenario"`
	Choices  []int    `json:"choices"`
	Expect   string   `json:"expect"`
	Events   []string `json:"events"`
}

func eventsOf(x *vrt.Execution) []string {
	var out []string
	for _, e := range x.Events {
		out = append(out, e.String())
	}
	return out
}

type verdict struct{ prop, key, desc string }

// explore one scenario for the target property.
// overlapSetup (C04 on the real runner): the tasks of the scenario are independent; at the first point at
// which nothing but running commands remains, every one of them must be inside a command.
func overlapSetup(sc *Scenario) func(*vrt.Sched) {
	return func(s *vrt.Sched) {
		first := true
		s.OnQuiesc = func(parked []string) {
			if !first {
				return
			}
			first = false
			inCmd := map[string]bool{}
			for _, l := range parked {
				if strings.HasPrefix(l, "tok:") {
					inCmd[strings.SplitN(strings.TrimPrefix(l, "tok:"), ".", 2)[0]] = true
				}
			}
			var missing []string
			for _, t := range sc.Tasks {
				if !inCmd[t.Name] {
					missing = append(missing, t.Name)
				}
			}
			if len(missing) > 0 {
				vrt.Fail("C04|independent tasks do not overlap: at the first quiescent point only %v are inside a command, %v have not started theirs", parked, missing)
			}
			vrt.Emit("quiescent", strings.Join(parked, ","))
		}
	}
}

func overlapFailures(x *vrt.Execution) *verdict {
	for _, f := range x.Failures {
		if kv := strings.SplitN(f, "|", 2); kv[0] == "C04" {
			return &verdict{"C04", "C04:real-not-concurrent", kv[1]}
		}
	}
	if x.Outcome != vrt.Completed {
		return &verdict{"C04", "C04:real-" + panicClass(x), fmt.Sprintf("%s %s %v", x.Outcome, x.PanicVal, x.Blocked)}
	}
	return nil
}

func exploreSc(res *common.Result, sc *Scenario, bound int, prune bool) (stop bool) {
	target := *common.Prop
	var viol *verdict
	var vx *vrt.Execution
	distinct := map[string]bool{}
	ecfg := vrt.ExploreConfig{Bound: bound, Prune: prune, Deadline: common.Deadline()}
	ecfg.ShardI, ecfg.ShardN = common.SubShardOf()
	if sc.Overlap {
		ecfg.Setup = overlapSetup(sc)
		ecfg.QuiescentOnly = true // running commands are released only when nothing else can happen
	}
	st := vrt.Explore(ecfg, body(sc), func(x *vrt.Execution) bool {
		if x.Outcome == vrt.Diverged {
			fmt.Fprintf(os.Stderr, "replay divergence in %s: %s\n", sc, x.PanicVal)
			os.Exit(2)
		}
		distinct[strings.Join(eventsOf(x), ";")] = true
		if sc.Overlap && target == "C04" {
			if v := overlapFailures(x); v != nil {
				viol, vx = v, x
				return false
			}
		}
		for _, v := range judge(sc, x) {
			if v.prop == target {
				v := v
				viol = &v
				vx = x
				return false
			}
		}
		return true
	})
	si, sn := common.SubShardOf()
	countCfg := sn == 0 || si == 0
	if countCfg {
		res.Configs++
	}
	res.Evaluations += st.Execs
	res.Traces += st.Execs
	res.States += st.States
	res.Transitions += st.Transitions
	for k, n := range st.Outcomes {
		res.Outcomes[k] += n
	}
	if len(distinct) >= 2 && countCfg {
		res.Nontrivial++
	}
	res.Extra["distinct_event_logs"] += int64(len(distinct))
	if viol == nil && !st.Exhaustive {
		res.Exhaustive = false
		res.Capped = st.Capped
		return true
	}
	if res.Configs%7 == 1 {
		res.AddSample(map[string]interface{}{"scenario": sc.String(), "executions": st.Execs, "bound": bound, "distinct_event_logs": len(distinct)})
	}
	if viol != nil {
		for k := 0; k < 2; k++ {
			var setup func(*vrt.Sched)
			if sc.Overlap {
				setup = overlapSetup(sc)
			}
			y := vrt.Replay(vx.Choices, setup, body(sc))
			if strings.Join(eventsOf(y), ";") != strings.Join(eventsOf(vx), ";") || y.Outcome != vx.Outcome {
				fmt.Fprintf(os.Stderr, "non-deterministic replay for %s\n%v\n%v\n", sc, eventsOf(vx), eventsOf(y))
				os.Exit(2)
			}
		}
		rf := replayFile{Harness: "rr", Property: target, Unit: *common.Unit, Sc: *sc, Choices: vx.Choices, Expect: viol.key, Events: eventsOf(vx)}
		return res.AddViolation(common.Violation{Property: target, Key: viol.key + "|" + sc.shape(), Desc: sc.String() + ": " + viol.desc, Config: sc, Choices: vx.Choices, Events: eventsOf(vx)}, rf)
	}
	return false
}

func main() {
	common.Init()
	logrus.SetOutput(io.Discard)
	logrus.StandardLogger().ExitFunc = func(int) { panic(vrt.AbortSentinel{Msg: "logrus.Fatal"}) }
	res := common.NewResult("rr")
	if *common.Replay != "" {
		var cf struct {
			Conc    *concCase    `json:"conc"`
			Watch   *watchCase   `json:"watch"`
			Cockpit *cockpitCase `json:"cockpit"`
			Choices []int        `json:"choices"`
		}
		common.ReadReplay(&cf)
		if cf.Cockpit != nil {
			vrt.Debug = true
			x := vrt.Replay(cf.Choices, nil, cockpitBody(cf.Cockpit))
			fmt.Printf("outcome: %s %s\nblocked: %v\n", x.Outcome, x.PanicVal, x.Blocked)
			for _, e := range x.Events {
				fmt.Println("  ", e)
			}
			if k, d := judgeCockpit(cf.Cockpit, x); k != "" {
				fmt.Println("oracle:", k, d)
				fmt.Printf("VIOLATION property=C19 replay=%s\n", *common.Replay)
				os.Exit(1)
			}
			return
		}
		if cf.Watch != nil {
			theSeam.park = false
			x := vrt.Replay(cf.Choices, nil, watchBody(cf.Watch))
			for _, e := range x.Events {
				fmt.Println("  ", e)
			}
			if k, d := judgeWatch(cf.Watch, x); k != "" {
				fmt.Println("oracle:", k, d)
				fmt.Printf("VIOLATION property=C20 replay=%s\n", *common.Replay)
				os.Exit(1)
			}
			return
		}
		if cf.Conc != nil {
			x := vrt.Replay(cf.Choices, nil, concBody(cf.Conc))
			for _, e := range x.Events {
				fmt.Println("  ", e)
			}
			if k, d := judgeConc(cf.Conc, x); k != "" {
				fmt.Println("oracle:", k, d)
				fmt.Printf("VIOLATION property=C19 replay=%s\n", *common.Replay)
				os.Exit(1)
			}
			return
		}
		var rf replayFile
		common.ReadReplay(&rf)
		var setup func(*vrt.Sched)
		if rf.Sc.Overlap {
			setup = overlapSetup(&rf.Sc)
		}
		x := vrt.Replay(rf.Choices, setup, body(&rf.Sc))
		fmt.Printf("scenario: %s\noutcome: %s %s\nblocked: %v\nstack: %s\n", rf.Sc.String(), x.Outcome, x.PanicVal, x.Blocked, x.Stack)
		for _, e := range x.Events {
			fmt.Println("  ", e)
		}
		bad := false
		if rf.Sc.Overlap && rf.Property == "C04" {
			if v := overlapFailures(x); v != nil {
				fmt.Printf("oracle: %s %s: %s\n", v.prop, v.key, v.desc)
				bad = true
			}
		}
		for _, v := range judge(&rf.Sc, x) {
			fmt.Printf("oracle: %s %s: %s\n", v.prop, v.key, v.desc)
			if v.prop == rf.Property {
				bad = true
			}
		}
		if bad {
			fmt.Printf("VIOLATION property=%s replay=%s\n", rf.Property, *common.Replay)
			os.Exit(1)
		}
		return
	}
	runUnit(res)
	res.Write()
}
