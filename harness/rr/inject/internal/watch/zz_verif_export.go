//go:build verif

package watch

import "github.com/fsnotify/fsnotify"

// VerifDetach shuts the real fsnotify watcher down (and waits until its reader goroutine has
// closed its channels), then installs harness-owned channels: from here on the harness plays the
// role of the kernel + fsnotify, and no real-time goroutine touches the watcher any more.
func VerifDetach(w *Watcher, events chan fsnotify.Event, errors chan error) {
	w.fsw.Close()
	for range w.fsw.Events {
	}
	for range w.fsw.Errors {
	}
	w.fsw.Events = events
	w.fsw.Errors = errors
}
