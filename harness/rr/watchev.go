//go:build verif

package main

import (
	"fmt"
	"io"
	"os"
	"sort"
	"strings"
	"time"

	"github.com/fsnotify/fsnotify"

	"github.com/taskctl/taskctl/internal/vh/common"
	"github.com/taskctl/taskctl/internal/watch"
	"github.com/taskctl/taskctl/pkg/output"
	"github.com/taskctl/taskctl/pkg/runner"
	"github.com/taskctl/taskctl/pkg/task"
	"github.com/taskctl/taskctl/vrt"
)

// ---- C20 (events): the real Watcher.Run / handle / Close with injected fsnotify events ----

type evT struct {
	Op   string `json:"op"`
	Path string `json:"path"`
}

type watchCase struct {
	Events       []evT    `json:"events"`
	Subscribed   []string `json:"subscribed"`              // empty = all
	StartupFails bool     `json:"startup_fails,omitempty"` // the task exits non-zero in the start-up run (no event yet) and zero when run for an event
}

var opOf = map[string]fsnotify.Op{"create": fsnotify.Create, "write": fsnotify.Write, "remove": fsnotify.Remove, "rename": fsnotify.Rename, "chmod": fsnotify.Chmod}
var opNames = []string{"create", "write", "remove", "rename", "chmod"}

func watchBody(c *watchCase) func() {
	return func() {
		theSeam.bufs = map[int][]byte{}
		resetOutput()
		r, err := runner.NewTaskRunner()
		if err != nil {
			panic(err)
		}
		r.Stdout, r.Stderr, r.OutputFormat = theSeam, io.Discard, output.FormatRaw
		t := task.FromCommands(`echo "ev:$EventName:$EventPath"`)
		if c.StartupFails {
			// e.g. a linter run on "$EventPath": the start-up run has no event and fails; that must not keep later events from running the task
			t = task.FromCommands(`echo "ev:$EventName:$EventPath"; test -n "$EventName"`)
		}
		t.Name = "wt"
		w, err := watch.NewWatcher("w", c.Subscribed, nil, nil, t)
		for attempt := 0; err != nil && strings.Contains(err.Error(), "too many open files") && attempt < 8; attempt++ {
			time.Sleep(time.Duration(300*(attempt+1)) * time.Millisecond) // per-user inotify exhaustion by other activity
			w, err = watch.NewWatcher("w", c.Subscribed, nil, nil, t)
		}
		if err != nil && strings.Contains(err.Error(), "too many open files") {
			vrt.Emit("resource-exhausted", err.Error())
			return
		}
		if err != nil {
			vrt.Emit("builderr", err.Error())
			return
		}
		ch := make(chan fsnotify.Event, len(c.Events)+1)
		watch.VerifDetach(w, ch, make(chan error))
		for _, e := range c.Events {
			ch <- fsnotify.Event{Name: e.Path, Op: opOf[e.Op]}
		}
		vrt.GoNamed("watcher.Run", func() {
			err := w.Run(r)
			vrt.Emit("watch.ret", errStr(err))
		})
		// wait until the watcher has taken every event, then close it
		for len(ch) > 0 {
			vrt.Touch("harness.queue", false)
			vrt.Sleep(0)
		}
		vrt.Emit("close.call", "")
		w.Close()
		vrt.Emit("close.ret", "")
	}
}

func judgeWatch(c *watchCase, x *vrt.Execution) (string, string) {
	if x.Outcome != vrt.Completed {
		return "C20:" + panicClass(x), fmt.Sprintf("%s %s %v %s", x.Outcome, x.PanicVal, x.Blocked, x.Stack)
	}
	sub := map[string]bool{}
	for _, s := range c.Subscribed {
		sub[s] = true
	}
	var want []string
	for _, e := range c.Events {
		if len(c.Subscribed) == 0 || sub[e.Op] {
			want = append(want, "ev:"+e.Op+":"+e.Path)
		}
	}
	var got []string
	initial, ret := 0, false
	for _, e := range x.Events {
		switch e.Kind {
		case "tok":
			if e.Arg == "ev::" {
				initial++
			} else {
				got = append(got, e.Arg)
			}
		case "watch.ret":
			ret = true
		case "resource-exhausted":
			return "", "" // not judged
		case "builderr":
			return "C20:builderr", e.Arg
		}
	}
	if !ret {
		return "C20:run-does-not-return", "Watcher.Run did not return after Close"
	}
	if initial != 1 {
		return "C20:initial-run", fmt.Sprintf("the watcher's task ran %d times at start-up, expected once", initial)
	}
	sort.Strings(want)
	sort.Strings(got)
	if strings.Join(got, " ") != strings.Join(want, " ") {
		gm := map[string]int{}
		for _, g := range got {
			gm[g]++
		}
		for _, w := range want {
			gm[w]--
		}
		for k, n := range gm {
			if n > 0 {
				return "C20:unsubscribed-or-wrong-event-ran-task", fmt.Sprintf("task ran for %q which is not a subscribed injected event (ran: %v, expected: %v)", k, got, want)
			}
		}
		return "C20:event-did-not-run-task", fmt.Sprintf("task executions %v, subscribed injected events %v", got, want)
	}
	return "", ""
}

func watchUnits(res *common.Result) bool {
	var maxLen, bound int
	canonical := false
	switch *common.Unit {
	case "watchev-seq": // every event sequence x subscription on the canonical schedule
		maxLen, canonical = 3, true
		if *common.Tier == "thorough" {
			maxLen = 4
		}
	case "watchev-sched-q": // schedule exploration for short sequences
		maxLen, bound = 1, 0
	case "watchev-sched-t":
		maxLen, bound = 2, 0
	case "watchev-overlap-q", "watchev-overlap-t":
		// a slow task: every run of the task is parked inside its command, so the watcher picks up the next
		// event while the run for the previous one is still in flight (runs overlap; branching at the quiescent
		// points only: every order in which the overlapping runs complete)
		maxLen, bound = 2, 0
		if *common.Unit == "watchev-overlap-t" {
			maxLen = 4
		}
	default:
		return false
	}
	overlap := strings.HasPrefix(*common.Unit, "watchev-overlap")
	theSeam.park = overlap
	res.Bound = bound
	paths := []string{"f1", "f2"}
	var alphabet []evT
	for _, op := range opNames {
		for _, p := range paths {
			alphabet = append(alphabet, evT{op, p})
		}
	}
	var subsets [][]string
	for m := 0; m < 32; m++ {
		var s []string
		for i, op := range opNames {
			if m&(1<<uint(i)) != 0 {
				s = append(s, op)
			}
		}
		subsets = append(subsets, s)
	}
	repr := [][]string{{}, {"write"}, {"create", "remove"}, {"write", "chmod", "rename"}}
	var idx int64
	stop := false
	do := func(c watchCase, b int) {
		idx++
		if stop || !common.Mine(idx) {
			return
		}
		if common.Expired() {
			res.Exhaustive, res.Capped, stop = false, "internal deadline", true
			return
		}
		var key, desc string
		var vx *vrt.Execution
		distinct := map[string]bool{}
		st := vrt.Explore(vrt.ExploreConfig{Bound: b, Prune: true, QuiescentOnly: canonical || overlap, Deadline: common.Deadline()}, watchBody(&c), func(x *vrt.Execution) bool {
			if x.Outcome == vrt.Diverged {
				fmt.Fprintln(os.Stderr, "replay divergence", x.PanicVal)
				os.Exit(2)
			}
			distinct[strings.Join(eventsOf(x), ";")] = true
			if k, d := judgeWatch(&c, x); k != "" {
				key, desc, vx = k, d, x
				return false
			}
			return true
		})
		res.Configs++
		res.Evaluations += st.Execs
		res.Traces += st.Execs
		res.States += st.States
		res.Transitions += st.Transitions
		for k, v := range st.Outcomes {
			res.Outcomes[k] += v
		}
		if len(distinct) >= 2 {
			res.Nontrivial++
		}
		if *verbose {
			fmt.Fprintf(os.Stderr, "watch case %+v: %d execs\n", c, st.Execs)
		}
		if res.Configs%97 == 1 {
			res.AddSample(map[string]interface{}{"case": c, "executions": st.Execs, "bound": b})
		}
		if key == "" && !st.Exhaustive {
			res.Exhaustive, res.Capped, stop = false, st.Capped, true
			return
		}
		if key != "" {
			if res.AddViolation(common.Violation{Property: "C20", Key: fmt.Sprintf("%s|events=%d|subscribed=%v|startupfails=%v", key, len(c.Events), c.Subscribed, c.StartupFails), Desc: fmt.Sprintf("%+v: %s", c, desc), Config: c, Choices: vx.Choices, Events: eventsOf(vx)},
				map[string]interface{}{"harness": "rr", "property": "C20", "watch": c, "choices": vx.Choices}) {
				stop = true
			}
		}
	}
	if !canonical {
		// schedule exploration: a reduced event alphabet (one subscribed-by-some and one other op, one path)
		alphabet = []evT{{"write", "f1"}, {"remove", "f1"}}
		repr = [][]string{{}, {"write"}, {"remove", "chmod"}}
	}
	if overlap {
		alphabet = []evT{{"write", "f1"}, {"write", "f2"}}
		repr = [][]string{{}}
	}
	var rec func(cur []evT)
	rec = func(cur []evT) {
		if stop {
			return
		}
		subs := repr
		if len(cur) <= 2 && canonical {
			subs = subsets
		}
		b := bound
		if !canonical && len(cur) <= 1 && *common.Unit == "watchev-sched-t" {
			b = bound + 1
		}
		for si, s := range subs {
			if overlap && len(cur) < 2 {
				continue // a single event cannot overlap with another one
			}
			if !canonical && len(cur) >= 2 && si > 0 && *common.Tier != "thorough" {
				continue // quick: two-event schedules only with everything subscribed
			}
			do(watchCase{Events: append([]evT{}, cur...), Subscribed: s}, b)
			if si == 0 && len(cur) >= 1 && len(cur) <= 2 {
				// the start-up run of the task fails: later events must still run it
				do(watchCase{Events: append([]evT{}, cur...), Subscribed: s, StartupFails: true}, b)
			}
		}
		if len(cur) == maxLen {
			return
		}
		for _, a := range alphabet {
			rec(append(cur, a))
		}
	}
	rec(nil)
	if canonical && !stop {
		// many events: long sequences cycling through every operation and both paths (the watcher keeps serving later events)
		for _, n := range []int{10, 25, 60} {
			var evs []evT
			for i := 0; i < n; i++ {
				evs = append(evs, alphabet[(i*7)%len(alphabet)])
			}
			for _, s := range repr {
				do(watchCase{Events: evs, Subscribed: s}, bound)
			}
			do(watchCase{Events: evs, StartupFails: true}, bound)
		}
	}
	return true
}
