//go:build verif

package output

// VerifReset re-initialises the package-level state between explored executions (harness only).
func VerifReset() {
	closed = false
	closeCh = make(chan bool)
	base = nil
}
