//go:build verif

package main

import (
	"fmt"
	"io"
	"os"
	"strings"

	"github.com/taskctl/taskctl/internal/vh/common"
	"github.com/taskctl/taskctl/pkg/output"
	"github.com/taskctl/taskctl/pkg/task"
	"github.com/taskctl/taskctl/vrt"
	"github.com/taskctl/taskctl/vrt/vsync"
)

// ---- C19 (cockpit): the cockpit decorator together with the INSTRUMENTED third-party spinner
// (its goroutine, lock, stop channel and frame sleep are under the vrt scheduler) ----

type cockpitCase struct {
	Tasks  int      `json:"tasks"`
	Shapes []string `json:"shapes"`          // per task: full (header, write, footer), nostart (footer only: skipped task), errored
	After  []string `json:"after,omitempty"` // tasks of a later command-line target: run one after another once output.Close() has been called for the first target
}

func cockpitBody(c *cockpitCase) func() {
	return func() {
		resetOutput()
		var wg vsync.WaitGroup
		for i := 0; i < c.Tasks; i++ {
			i := i
			wg.Add(1)
			vrt.GoNamed(fmt.Sprintf("task%d", i), func() {
				t := task.NewTask()
				t.Name = fmt.Sprintf("t%d", i)
				o, err := output.NewTaskOutput(t, output.FormatCockpit, io.Discard, io.Discard)
				if err != nil {
					panic(err)
				}
				switch c.Shapes[i] {
				case "full", "errored":
					o.Start()
					o.Stdout().Write([]byte("line\n"))
					if c.Shapes[i] == "errored" {
						t.Errored = true
					}
					vrt.Park("running:" + t.Name)
					o.Finish()
				case "nostart":
					o.Finish()
				}
				vrt.Emit("task.done", t.Name)
				wg.Done()
			})
		}
		wg.Wait()
		output.Close()
		vrt.Emit("closed", "")
		// `taskctl T1 T2`: the output is closed after every successful target and used again by the next one
		for i, shape := range c.After {
			t := task.NewTask()
			t.Name = fmt.Sprintf("later%d", i)
			o, err := output.NewTaskOutput(t, output.FormatCockpit, io.Discard, io.Discard)
			if err != nil {
				panic(err)
			}
			if shape != "nostart" {
				o.Start()
				o.Stdout().Write([]byte("line\n"))
				t.Errored = shape == "errored"
				vrt.Park("running:" + t.Name)
			}
			o.Finish()
			vrt.Emit("task.done", t.Name)
			output.Close()
		}
		vrt.Emit("end", "")
		// the process exits here: a spinner that is still spinning is abandoned, not waited for
		vrt.ExitProcess()
	}
}

func judgeCockpit(c *cockpitCase, x *vrt.Execution) (string, string) {
	if x.Outcome != vrt.Completed {
		return "C19:cockpit-" + panicClass(x), fmt.Sprintf("cockpit output: %s %s; threads %v; %s", x.Outcome, x.PanicVal, x.Blocked, x.Stack)
	}
	return "", ""
}

func cockpitUnits(res *common.Result) bool {
	var bound int
	switch *common.Unit {
	case "cockpit-q":
		bound = 2
	case "cockpit-t":
		bound = 3
	default:
		return false
	}
	res.Bound = bound
	var cases []cockpitCase
	for _, s := range []string{"full", "nostart", "errored"} {
		cases = append(cases, cockpitCase{Tasks: 1, Shapes: []string{s}})
	}
	for _, a := range []string{"full", "nostart", "errored"} {
		for _, b := range []string{"full", "nostart"} {
			cases = append(cases, cockpitCase{Tasks: 2, Shapes: []string{a, b}})
		}
	}
	// a second (and third) target after the first one has closed the output
	for _, a := range []string{"full", "nostart", "errored"} {
		for _, l := range []string{"full", "errored", "nostart"} {
			cases = append(cases, cockpitCase{Tasks: 1, Shapes: []string{a}, After: []string{l}})
		}
	}
	cases = append(cases, cockpitCase{Tasks: 1, Shapes: []string{"full"}, After: []string{"full", "full"}})
	if *common.Unit == "cockpit-t" {
		cases = append(cases, cockpitCase{Tasks: 3, Shapes: []string{"full", "full", "nostart"}})
	}
	var idx int64
	for _, c := range cases {
		c := c
		idx++
		if !common.Mine(idx) {
			continue
		}
		b := bound
		if c.Tasks >= 2 {
			b = bound - 2
		}
		if len(c.After) == 1 {
			b = bound - 1
		}
		if len(c.After) > 1 {
			b = 0
		}
		if c.Tasks >= 3 {
			b = 0
		}
		var key, desc string
		var vx *vrt.Execution
		distinct := map[string]bool{}
		st := vrt.Explore(vrt.ExploreConfig{Bound: b, Prune: true, Deadline: common.Deadline()}, cockpitBody(&c), func(x *vrt.Execution) bool {
			if x.Outcome == vrt.Diverged {
				fmt.Fprintln(os.Stderr, "replay divergence", x.PanicVal)
				os.Exit(2)
			}
			distinct[strings.Join(eventsOf(x), ";")] = true
			if k, d := judgeCockpit(&c, x); k != "" {
				key, desc, vx = k, d, x
				return false
			}
			return true
		})
		res.Configs++
		res.Evaluations += st.Execs
		res.Traces += st.Execs
		res.States += st.States
		res.Transitions += st.Transitions
		for k, v := range st.Outcomes {
			res.Outcomes[k] += v
		}
		if len(distinct) >= 2 {
			res.Nontrivial++
		}
		res.AddSample(map[string]interface{}{"case": c, "executions": st.Execs, "bound": b})
		if *verbose {
			fmt.Fprintf(os.Stderr, "cockpit %+v: %d execs\n", c, st.Execs)
		}
		if key == "" && !st.Exhaustive {
			res.Exhaustive, res.Capped = false, st.Capped
			return true
		}
		if key != "" {
			if res.AddViolation(common.Violation{Property: "C19", Key: fmt.Sprintf("%s|tasks=%d|shapes=%v|after=%v", key, c.Tasks, c.Shapes, c.After), Desc: fmt.Sprintf("%+v: %s", c, desc), Config: c, Choices: vx.Choices, Events: eventsOf(vx)},
				map[string]interface{}{"harness": "rr", "property": "C19", "cockpit": c, "choices": vx.Choices}) {
				return true
			}
		}
	}
	return true
}
