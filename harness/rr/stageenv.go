//go:build verif

package main

import (
	"fmt"
	"strings"

	"github.com/taskctl/taskctl/internal/vh/common"
	"github.com/taskctl/taskctl/vrt"
)

// ---- C08 on the REAL runner: a stage's env override stays with that stage, also when the tasks run in
// a named execution context (one context object is shared by every task that names it) ----

// judgeStageEnv: every task that echoes a variable (Reads) and has no producer for it must print its
// own stage's value of that variable, or nothing.
func judgeStageEnv(sc *Scenario, x *vrt.Execution) []verdict {
	var v []verdict
	for _, t := range sc.Tasks {
		if t.Reads == "" || !strings.HasPrefix(t.Reads, "STAGEVAR") {
			continue
		}
		want := "got:" + t.Name + ":" + t.StageEnv[t.Reads]
		n := 0
		for _, e := range x.Events {
			if e.Kind == "tok" && strings.HasPrefix(e.Arg, "got:"+t.Name+":") {
				n++
				if e.Arg != want {
					v = append(v, verdict{"C08", "C08:stage-env-visible-elsewhere", fmt.Sprintf("%s printed %q, its own stage gives %q (another stage's env override is visible)", t.Name, e.Arg, want)})
					v = append(v, verdict{"C09", "C09:command-sees-another-commands-environment", fmt.Sprintf("%s printed %q, the levels that define the name for this command give %q", t.Name, e.Arg, want)})
				}
			}
		}
		_ = n
	}
	return v
}

// overlapUnits (C04 on the real runner): 2-3 independent tasks, directly in parallel and as pipeline
// stages, without a context, in one shared context with up/before/after hooks, and in two contexts.
func overlapUnits(res *common.Result, each func(Scenario, int) bool) bool {
	gen := func(nmax int, bound func(n int) int) {
		for n := 2; n <= nmax; n++ {
			for _, mode := range []string{"par", "pipeline"} {
				for _, ctx := range []string{"", "one", "two"} {
					for _, hooks := range []bool{false, true} {
						sc := Scenario{Mode: mode, Overlap: true}
						if ctx != "" {
							sc.Ctxs = []CtxCfg{{Name: "c1", Up: []string{"up1:c1"}, Before: []string{"cb:c1"}, After: []string{"ca:c1"}}}
							if ctx == "two" {
								sc.Ctxs = append(sc.Ctxs, CtxCfg{Name: "c2", Before: []string{"cb:c2"}})
							}
						}
						for i := 0; i < n; i++ {
							t := stdTask([]string{"p", "q", "r"}[i], 0, 1, false)
							if hooks {
								t = stdTask(t.Name, 1, 1, true)
							}
							if ctx != "" {
								t.Ctx = "c1"
								if ctx == "two" && i%2 == 1 {
									t.Ctx = "c2"
								}
							}
							sc.Tasks = append(sc.Tasks, t)
						}
						if each(sc, bound(n)) {
							return
						}
					}
				}
			}
		}
	}
	switch *common.Unit {
	case "overlap-q":
		res.Bound = 1
		theSeam.park = true
		gen(3, func(n int) int { return map[int]int{2: 1, 3: 0}[n] })
	case "overlap-t":
		res.Bound = 2
		theSeam.park = true
		gen(3, func(n int) int { return map[int]int{2: 2, 3: 1}[n] })
	default:
		return false
	}
	return true
}

func stageEnvUnits(res *common.Result, each func(Scenario, int) bool) bool {
	mk := func(name, ctx string, own bool, deps ...string) TaskCfg {
		t := TaskCfg{Name: name, FailAt: -1, Ctx: ctx, Reads: "STAGEVAR", Deps: deps}
		if own {
			t.StageEnv = map[string]string{"STAGEVAR": "of-" + name}
		}
		return t
	}
	gen := func(bound func(n int) int) {
		for _, ctx := range []string{"", "c1"} {
			for _, shape := range []string{"chain", "reverse", "parallel", "three"} {
				sc := Scenario{Mode: "pipeline", DirectAfter: "q"}
				if ctx != "" {
					sc.Ctxs = []CtxCfg{{Name: "c1"}}
				}
				switch shape {
				case "chain": // the overriding stage first
					sc.Tasks = []TaskCfg{mk("p", ctx, true), mk("q", ctx, false, "p")}
				case "reverse":
					sc.Tasks = []TaskCfg{mk("p", ctx, true, "q"), mk("q", ctx, false)}
				case "parallel":
					sc.Tasks = []TaskCfg{mk("p", ctx, true), mk("q", ctx, false)}
				case "three": // two different overrides, then a stage without
					sc.Tasks = []TaskCfg{mk("p", ctx, true), mk("r", ctx, true, "p"), mk("q", ctx, false, "r")}
				}
				if each(sc, bound(len(sc.Tasks))) {
					return
				}
			}
		}
	}
	switch *common.Unit {
	case "stageenv-q":
		res.Bound = 1
		theSeam.park = false
		gen(func(n int) int { return map[int]int{2: 1, 3: 0}[n] })
	case "stageenv-t":
		res.Bound = 2
		theSeam.park = false
		gen(func(n int) int { return map[int]int{2: 2, 3: 1}[n] })
	default:
		return false
	}
	return true
}
