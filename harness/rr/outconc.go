//go:build verif

package main

import (
	"bytes"
	"fmt"
	"os"
	"strings"

	"github.com/taskctl/taskctl/internal/vh/common"
	"github.com/taskctl/taskctl/pkg/output"
	"github.com/taskctl/taskctl/pkg/task"
	"github.com/taskctl/taskctl/vrt"
	"github.com/taskctl/taskctl/vrt/vsync"
)

// ---- C19 (concurrent part): several tasks write through their own decorators into one sink ----

type concCase struct {
	Format  string     `json:"format"`
	Streams [][]string `json:"streams"` // per task: chunks
}

type sharedSink struct {
	writes []string // "threadid|bytes"
}

func (s *sharedSink) Write(p []byte) (int, error) {
	vrt.Point() // a write to the shared terminal is one atomic step; switching happens between writes
	s.writes = append(s.writes, string(p))
	vrt.Emit("sink", string(p))
	return len(p), nil
}

func concBody(c *concCase) func() {
	return func() {
		resetOutput()
		s := &sharedSink{}
		var wg vsync.WaitGroup
		for i, chunks := range c.Streams {
			i, chunks := i, chunks
			wg.Add(1)
			vrt.GoNamed(fmt.Sprintf("w%d", i), func() {
				t := task.NewTask()
				t.Name = fmt.Sprintf("task%d", i)
				o, err := output.NewTaskOutput(t, c.Format, s, s)
				if err != nil {
					panic(err)
				}
				o.Start()
				w := o.Stdout()
				for _, ch := range chunks {
					w.Write([]byte(ch))
				}
				o.Finish()
				if t.Log.Stdout.String() != strings.Join(chunks, "") {
					vrt.Emit("log-mismatch", t.Name)
				}
				wg.Done()
			})
		}
		wg.Wait()
	}
}

func stripNL(s string) string {
	return strings.NewReplacer("\r", "", "\n", "").Replace(s)
}

func judgeConc(c *concCase, x *vrt.Execution) (string, string) {
	if x.Outcome != vrt.Completed {
		return "C19:" + panicClass(x), fmt.Sprintf("%s %s %v", x.Outcome, x.PanicVal, x.Blocked)
	}
	got := make([]bytes.Buffer, len(c.Streams))
	for _, e := range x.Events {
		switch e.Kind {
		case "log-mismatch":
			return "C19:task-log-differs", "the recorded task output differs from what " + e.Arg + " wrote"
		case "sink":
			if c.Format == output.FormatRaw {
				// raw: bytes forwarded unchanged; attribute by content (streams use disjoint alphabets)
				for i := range c.Streams {
					for _, b := range []byte(e.Arg) {
						if strings.IndexByte(strings.Join(c.Streams[i], ""), b) >= 0 && b != '\n' {
							got[i].WriteByte(b)
						}
					}
				}
				continue
			}
			if !strings.HasSuffix(e.Arg, "\r\n") {
				return "C19:partial-line-write", fmt.Sprintf("sink write %q is not a whole line", e.Arg)
			}
			owner := -1
			for i := range c.Streams {
				if strings.Contains(e.Arg, fmt.Sprintf("task%d", i)) {
					if owner >= 0 {
						return "C19:line-names-two-tasks", fmt.Sprintf("line %q names two tasks", e.Arg)
					}
					owner = i
				}
			}
			if owner < 0 {
				return "C19:line-without-task-name", fmt.Sprintf("line %q carries no task name", e.Arg)
			}
			body := e.Arg[strings.Index(e.Arg, ": ")+2:]
			for j := range c.Streams {
				if j == owner {
					continue
				}
				for _, b := range []byte(stripNL(strings.Join(c.Streams[j], ""))) {
					if strings.IndexByte(body, b) >= 0 {
						return "C19:bytes-of-another-task", fmt.Sprintf("line %q of task%d carries bytes of task%d", e.Arg, owner, j)
					}
				}
			}
			got[owner].WriteString(stripNL(body))
		}
	}
	for i := range c.Streams {
		if want := stripNL(strings.Join(c.Streams[i], "")); got[i].String() != want {
			return "C19:task-output-lost-or-reordered", fmt.Sprintf("task%d: output reassembles to %q, it wrote %q", i, got[i].String(), want)
		}
	}
	return "", ""
}

func outconcUnits(res *common.Result) bool {
	var bound int
	var ntasks []int
	switch *common.Unit {
	case "outconc-q":
		bound, ntasks = 2, []int{2, 3}
	case "outconc-t":
		bound, ntasks = 3, []int{2, 3, 4}
	default:
		return false
	}
	res.Bound = bound
	// disjoint alphabets per task so that attribution by content is exact
	alph := []string{"abc", "def", "ghi", "jkl"}
	mk := func(n int, shape int) [][]string {
		var out [][]string
		for i := 0; i < n; i++ {
			a := alph[i]
			switch shape {
			case 0: // three whole lines
				out = append(out, []string{a[:1] + "\n", a[1:2] + "\n", a[2:] + "\n"})
			case 1: // a line cut in the middle, then an unterminated tail
				out = append(out, []string{a[:1], a[1:2] + "\n", a[2:]})
			case 2: // several lines in one write
				out = append(out, []string{a[:1] + "\n" + a[1:2] + "\n", a[2:] + "\n", ""})
			}
		}
		return out
	}
	var idx int64
	for _, n := range ntasks {
		for shape := 0; shape < 3; shape++ {
			for _, format := range []string{output.FormatPrefixed, output.FormatRaw} {
				c := concCase{Format: format, Streams: mk(n, shape)}
				idx++
				if !common.Mine(idx) {
					continue
				}
				b := bound
				if n >= 3 {
					b = bound - 1
				}
				if n >= 4 {
					b = 1
				}
				var key, desc string
				var vx *vrt.Execution
				distinct := map[string]bool{}
				st := vrt.Explore(vrt.ExploreConfig{Bound: b, Prune: true, Deadline: common.Deadline()}, concBody(&c), func(x *vrt.Execution) bool {
					if x.Outcome == vrt.Diverged {
						fmt.Fprintln(os.Stderr, "replay divergence")
						os.Exit(2)
					}
					distinct[strings.Join(eventsOf(x), ";")] = true
					if k, d := judgeConc(&c, x); k != "" {
						key, desc, vx = k, d, x
						return false
					}
					return true
				})
				res.Configs++
				res.Evaluations += st.Execs
				res.Traces += st.Execs
				res.States += st.States
				res.Transitions += st.Transitions
				for k, v := range st.Outcomes {
					res.Outcomes[k] += v
				}
				if len(distinct) >= 2 {
					res.Nontrivial++
				}
				res.Extra["distinct_sink_orders"] += int64(len(distinct))
				res.AddSample(map[string]interface{}{"case": c, "executions": st.Execs, "bound": b, "distinct_sink_orders": len(distinct)})
				if key == "" && !st.Exhaustive {
					res.Exhaustive, res.Capped = false, st.Capped
					return true
				}
				if key != "" {
					if res.AddViolation(common.Violation{Property: "C19", Key: fmt.Sprintf("%s|%s|tasks=%d", key, format, n), Desc: fmt.Sprintf("%+v: %s", c, desc), Config: c, Choices: vx.Choices, Events: eventsOf(vx)},
						map[string]interface{}{"harness": "rr", "property": "C19", "conc": c, "choices": vx.Choices}) {
						return true
					}
				}
			}
		}
	}
	return true
}
