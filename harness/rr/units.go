//go:build verif

package main

import (
	"flag"
	"fmt"
	"os"

	"github.com/taskctl/taskctl/internal/vh/common"
)

var only = flag.Int64("only", -1, "explore only the scenario with this index")
var verbose = flag.Bool("v", false, "print per-scenario statistics")
var pruneFlag = flag.Bool("prune", true, "cost-aware state-key pruning")

func stdTask(name string, before, ncmd int, after bool) TaskCfg {
	t := TaskCfg{Name: name, FailAt: -1}
	for i := 0; i < before; i++ {
		t.Before = append(t.Before, fmt.Sprintf("%s.b%d", name, i+1))
	}
	for i := 0; i < ncmd; i++ {
		t.Cmds = append(t.Cmds, fmt.Sprintf("%s.c%d", name, i+1))
	}
	if after {
		t.After = []string{name + ".a"}
	}
	return t
}

func runUnit(res *common.Result) {
	var idx int64
	each := func(sc Scenario, bound int) bool {
		sc.Index = idx
		idx++
		if !common.Mine(sc.Index) || (*only >= 0 && sc.Index != *only) {
			return false
		}
		if common.Expired() {
			res.Exhaustive = false
			res.Capped = "internal deadline"
			return true
		}
		e0 := res.Evaluations
		stop := exploreSc(res, &sc, bound, *pruneFlag)
		if *verbose {
			fmt.Fprintf(os.Stderr, "sc %d %s: %d execs\n", sc.Index, sc.String(), res.Evaluations-e0)
		}
		return stop
	}
	names := []string{"p", "q", "r", "s"}
	// cancelDirect: n runs in parallel + c cancellers (once or twice), task = before + 2 commands (+after)
	cancelDirect := func(nmax, bound int) {
		res.Bound = bound
		for n := 0; n <= nmax; n++ {
			for _, c := range []int{1, 2} {
				for _, twice := range []bool{false, true} {
					if c == 2 && twice {
						continue
					}
					for _, after := range []bool{false, true} {
						if n == 0 && after {
							continue
						}
						sc := Scenario{Mode: "par", Cancellers: c, Twice: twice}
						for i := 0; i < n; i++ {
							sc.Tasks = append(sc.Tasks, stdTask(names[i], 1, 2, after))
						}
						if each(sc, bound) {
							return
						}
					}
				}
			}
		}
	}
	// cancelSched: pipelines with w waiting stages, external Cancel through the scheduler or a condition error
	cancelSched := func(bound int, big bool) {
		res.Bound = bound
		type shape struct {
			deps [][]string
		}
		shapes := [][][]string{
			{{}},                 // one stage
			{{}, {}},             // two parallel
			{{}, {"p"}},          // chain of 2
			{{}, {"p"}, {"p"}},   // fan-out
			{{}, {}, {"p", "q"}}, // fan-in
			{{}, {"p"}, {"q"}},   // chain of 3
		}
		if big {
			shapes = append(shapes, [][]string{{}, {}, {}, {"p"}}, [][]string{{}, {"p"}, {"q"}, {"r"}}, [][]string{{}, {}, {}, {}})
		}
		for _, deps := range shapes {
			mk := func() Scenario {
				sc := Scenario{Mode: "pipeline"}
				for i, d := range deps {
					t := stdTask(names[i], 0, 2, false)
					t.Deps = d
					sc.Tasks = append(sc.Tasks, t)
				}
				return sc
			}
			sc := mk()
			sc.Cancellers, sc.ViaSched = 1, true
			if each(sc, bound) {
				return
			}
			sc = mk()
			sc.Cancellers, sc.ViaSched, sc.Twice = 1, true, true
			if each(sc, bound) {
				return
			}
			for i := range deps {
				sc = mk()
				sc.CondErr = names[i]
				if each(sc, bound) {
					return
				}
			}
		}
	}
	mkPar := func(n, c int, twice bool, before, ncmd int, after bool) Scenario {
		sc := Scenario{Mode: "par", Cancellers: c, Twice: twice}
		for i := 0; i < n; i++ {
			sc.Tasks = append(sc.Tasks, stdTask(names[i], before, ncmd, after))
		}
		return sc
	}
	// sameObj: n runs in parallel of ONE task object (the way two stages referring to one task reach the runner)
	sameObj := func(n, c int, twice bool, before, ncmd int, after bool) Scenario {
		sc := mkPar(n, c, twice, before, ncmd, after)
		for i := 1; i < n; i++ {
			sc.Tasks[i] = sc.Tasks[0]
			sc.Tasks[i].Name = names[i]
			sc.Tasks[i].SameAs = names[0]
		}
		return sc
	}
	// withCtx: every task of the scenario runs in context c1, which has up, before and after hooks
	withCtx := func(sc Scenario) Scenario {
		sc.Ctxs = []CtxCfg{{Name: "c1", Up: []string{"up1:c1", "up2:c1"}, Before: []string{"cb:c1", "cb2:c1"}, After: []string{"ca:c1"}}}
		sc.Tasks = append([]TaskCfg{}, sc.Tasks...)
		for i := range sc.Tasks {
			sc.Tasks[i].Ctx = "c1"
		}
		return sc
	}
	type item struct {
		sc    Scenario
		bound int
	}
	runItems := func(items []item) {
		res.Bound = 0
		for _, it := range items {
			if it.bound > res.Bound {
				res.Bound = it.bound
			}
		}
		for _, it := range items {
			if each(it.sc, it.bound) {
				return
			}
		}
	}
	pipe := func(deps [][]string, ncmd int) Scenario {
		sc := Scenario{Mode: "pipeline"}
		for i, d := range deps {
			t := stdTask(names[i], 0, ncmd, false)
			t.Deps = d
			sc.Tasks = append(sc.Tasks, t)
		}
		return sc
	}
	schedItems := func(shapes [][][]string, ncmd, bound int) []item {
		var items []item
		for _, deps := range shapes {
			sc := pipe(deps, ncmd)
			sc.Cancellers, sc.ViaSched = 1, true
			items = append(items, item{sc, bound})
			sc = pipe(deps, ncmd)
			sc.Cancellers, sc.ViaSched, sc.Twice = 1, true, true
			items = append(items, item{sc, bound})
			for i := range deps {
				sc = pipe(deps, ncmd)
				sc.CondErr = names[i]
				items = append(items, item{sc, bound})
			}
		}
		return items
	}
	// two OVERLAPPING Scheduler.Cancel calls (a user interrupt arriving while another one is being served), and the
	// scheduler's own cancellation (a condition that cannot be evaluated) overlapping a user interrupt
	overlapCancels := func(extra int) []item {
		var items []item
		for _, sh := range []struct {
			deps  [][]string
			bound int
		}{{[][]string{{}}, 0}, {[][]string{{}, {}}, 0}, {[][]string{{}, {"p"}}, 0}} {
			sc := pipe(sh.deps, 1)
			sc.Cancellers, sc.ViaSched = 2, true
			if len(sh.deps) == 2 && len(sh.deps[1]) == 0 && extra == 0 {
				// two parallel stages under two cancellers: 1.2 million executions at bound 0 - thorough tier only
			} else {
				items = append(items, item{sc, sh.bound + extra})
			}
			if len(sh.deps) == 2 {
				sc = pipe(sh.deps, 1)
				sc.CondErr, sc.Cancellers, sc.ViaSched = names[1], 1, true
				items = append(items, item{sc, sh.bound + extra})
			}
		}
		return items
	}
	sameObjSched := func(n, bound int) []item {
		var items []item
		for _, it := range schedItems([][][]string{make([][]string, n)}, 1, bound) {
			for i := 1; i < n; i++ {
				it.sc.Tasks[i].Cmds, it.sc.Tasks[i].SameAs = it.sc.Tasks[0].Cmds, names[0]
			}
			items = append(items, it)
		}
		return items
	}
	switch *common.Unit {
	case "cancel-q": // quick: every number 0..3 of runs in flight, Cancel once / twice / from two threads
		runItems([]item{
			{mkPar(0, 1, false, 0, 0, false), 2}, {mkPar(0, 1, true, 0, 0, false), 2}, {mkPar(0, 2, false, 0, 0, false), 2},
			{mkPar(1, 1, false, 1, 2, false), 2}, {mkPar(1, 1, false, 1, 2, true), 2}, {mkPar(1, 1, true, 1, 2, false), 2}, {mkPar(1, 1, true, 1, 2, true), 2},
			{mkPar(1, 2, false, 1, 2, false), 1}, {mkPar(1, 2, false, 1, 1, true), 1},
			{mkPar(2, 1, false, 0, 1, false), 1}, {mkPar(2, 1, true, 0, 1, false), 1}, {mkPar(2, 2, false, 0, 1, false), 0},
			{mkPar(2, 1, false, 1, 2, false), 0}, {mkPar(2, 1, false, 1, 2, true), 0},
			{mkPar(3, 1, false, 0, 1, false), 0}, {mkPar(3, 1, false, 1, 1, false), 0},
			{withCtx(mkPar(1, 1, false, 0, 1, false)), 2}, {withCtx(mkPar(1, 1, false, 1, 1, true)), 1}, {withCtx(mkPar(2, 1, false, 0, 1, false)), 0},
			{sameObj(2, 1, false, 0, 1, false), 1}, {sameObj(2, 1, false, 1, 2, false), 0}, {sameObj(2, 1, true, 0, 1, false), 0}, {sameObj(3, 1, false, 0, 1, false), 0},
		})
	case "cancel-unbounded": // every interleaving (no preemption bound) of one run and one canceller
		runItems([]item{
			{mkPar(0, 1, false, 0, 0, false), -1}, {mkPar(0, 1, true, 0, 0, false), -1}, {mkPar(0, 2, false, 0, 0, false), -1},
			{mkPar(1, 1, false, 0, 1, false), -1}, {mkPar(1, 1, false, 1, 1, false), -1}, {mkPar(1, 1, true, 0, 1, false), -1}, {mkPar(1, 1, false, 0, 2, true), -1},
		})
		res.Bound = -1
	case "cancel-unbounded-t": // thorough: two runs and one canceller / one run and two cancellers without a bound (internal deadline)
		runItems([]item{
			{mkPar(1, 2, false, 0, 1, false), -1}, {mkPar(2, 1, false, 0, 1, false), -1}, {mkPar(2, 1, false, 1, 1, false), -1}, {mkPar(2, 2, false, 0, 1, false), -1},
		})
		res.Bound = -1
	case "cancel-sched-q":
		items := schedItems([][][]string{{{}}}, 2, 1)
		items = append(items, schedItems([][][]string{{{}, {}}, {{}, {"p"}}, {{}, {"p"}, {"p"}}, {{}, {}, {"p", "q"}}, {{}, {"p"}, {"q"}}}, 1, 0)...)
		items = append(items, sameObjSched(2, 0)...) // two parallel stages that refer to ONE task object
		items = append(items, overlapCancels(0)...)
		runItems(items)
	case "cancel-t": // thorough
		runItems([]item{
			{mkPar(1, 2, false, 1, 2, true), 2}, {mkPar(2, 1, false, 1, 2, false), 1}, {mkPar(2, 1, false, 1, 2, true), 1}, {mkPar(2, 1, true, 1, 2, false), 1},
			{mkPar(2, 2, false, 1, 1, false), 1}, {mkPar(2, 1, false, 0, 1, false), 2}, {mkPar(3, 1, false, 1, 2, false), 0}, {mkPar(3, 1, false, 0, 1, false), 1},
			{mkPar(3, 2, false, 0, 1, false), 0}, {mkPar(4, 1, false, 0, 1, false), 0}, {mkPar(4, 1, false, 1, 1, false), 0}, {mkPar(4, 2, false, 0, 1, false), 0},
		})
	case "cancel-sched-t":
		items := schedItems([][][]string{{{}}}, 2, 2)
		items = append(items, schedItems([][][]string{{{}, {}}, {{}, {"p"}}}, 1, 1)...)
		items = append(items, schedItems([][][]string{{{}, {"p"}, {"p"}}, {{}, {}, {"p", "q"}}, {{}, {"p"}, {"q"}}}, 2, 0)...)
		items = append(items, schedItems([][][]string{{{}, {}, {}, {"p"}}, {{}, {"p"}, {"q"}, {"r"}}, {{}, {}, {}, {}}}, 1, 0)...)
		items = append(items, sameObjSched(2, 1)...)
		items = append(items, sameObjSched(3, 0)...)
		items = append(items, overlapCancels(1)...)
		runItems(items)
	case "cancel-n1-b2":
		cancelDirect(1, 2)
	case "cancel-n2-b1":
		cancelDirect(2, 1)
	case "cancel-n2-b2":
		cancelDirect(2, 2)
	case "cancel-n3-b1":
		cancelDirect(3, 1)
	case "cancel-n3-b2":
		cancelDirect(3, 2)
	case "cancel-n4-b0":
		cancelDirect(4, 0)
	case "cancel-n2-b3":
		cancelDirect(2, 3)
	case "cancel-sched-b1":
		cancelSched(1, false)
	case "cancel-sched-b2":
		cancelSched(2, false)
	case "cancel-sched-big-b1":
		cancelSched(1, true)
	default:
		if !hookUnits(res, each) && !handoverUnits(res, each) && !stageEnvUnits(res, each) && !overlapUnits(res, each) && !outconcUnits(res) && !watchUnits(res) && !cockpitUnits(res) {
			fmt.Fprintln(os.Stderr, "unknown unit", *common.Unit)
			os.Exit(2)
		}
	}
}
