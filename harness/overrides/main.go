//go:build verif

// Harness "overrides" (C08): real instrumented scheduler + configuration builder; a recording
// runner snapshots env, variables and dir of the task object it is handed (and parks, so stages
// overlap). One shared task, 2..3 stages with different override kinds in every dependency
// arrangement, followed by a direct run and a second pipeline without overrides.
package main

import (
	"fmt"
	"io"
	"os"
	"sort"
	"strings"

	"github.com/sirupsen/logrus"

	"github.com/taskctl/taskctl/internal/config"
	"github.com/taskctl/taskctl/internal/vh/common"
	"github.com/taskctl/taskctl/pkg/scheduler"
	"github.com/taskctl/taskctl/pkg/task"
	"github.com/taskctl/taskctl/vrt"
)

type Cfg struct {
	Kinds []string   `json:"kinds"` // per stage: none, env, vars, dir, all, blank
	Deps  [][]string `json:"deps"`
	Index int64      `json:"index"`
}

var stageNames = []string{"s1", "s2", "s3"}

func (c Cfg) String() string {
	var parts []string
	for i, k := range c.Kinds {
		p := stageNames[i] + ":" + k
		if len(c.Deps[i]) > 0 {
			p += "<-" + strings.Join(c.Deps[i], ",")
		}
		parts = append(parts, p)
	}
	return strings.Join(parts, " ")
}

type recRunner struct{}

func snapshot(t *task.Task) string {
	var env, vars []string
	if t.Env != nil {
		for k, v := range t.Env.Map() {
			env = append(env, fmt.Sprintf("%s=%v", k, v))
		}
	}
	if t.Variables != nil {
		for k, v := range t.Variables.Map() {
			vars = append(vars, fmt.Sprintf("%s=%v", k, v))
		}
	}
	sort.Strings(env)
	sort.Strings(vars)
	return "env{" + strings.Join(env, ",") + "} vars{" + strings.Join(vars, ",") + "} dir=" + t.Dir
}

func (r *recRunner) Run(t *task.Task) error {
	in := snapshot(t)
	vrt.Emit("rec", in)
	vrt.Park("run")
	out := snapshot(t)
	if out != in {
		vrt.Emit("changed-during-run", in+" => "+out)
	}
	return nil
}
func (r *recRunner) Cancel() {}
func (r *recRunner) Finish() {}

func expected(c *Cfg) []string {
	taskEnv := map[string]string{"T": "t", "K": "task"}
	taskVars := map[string]string{"tv": "1", "K": "task", "Context.Name": "", "Task.Name": ""}
	snap := func(env, vars map[string]string, dir string) string {
		var e, v []string
		for k, x := range env {
			e = append(e, k+"="+x)
		}
		for k, x := range vars {
			v = append(v, k+"="+x)
		}
		sort.Strings(e)
		sort.Strings(v)
		return "env{" + strings.Join(e, ",") + "} vars{" + strings.Join(v, ",") + "} dir=" + dir
	}
	cp := func(m map[string]string) map[string]string {
		o := map[string]string{}
		for k, v := range m {
			o[k] = v
		}
		return o
	}
	var out []string
	for i, k := range c.Kinds {
		env, vars, dir := cp(taskEnv), cp(taskVars), "/taskdir"
		vars[".Stage.Name"] = stageNames[i]
		if k == "env" || k == "all" {
			env["K"] = "env-" + stageNames[i]
			env["E"+stageNames[i]] = "x"
		}
		if k == "vars" || k == "all" {
			vars["K"] = "var-" + stageNames[i]
			vars["V"+stageNames[i]] = "y"
		}
		if k == "all" { // overrides with more entries than the task's own settings
			for _, x := range []string{"1", "2", "3", "4", "5"} {
				env["X"+x] = "ex" + x
				vars["Y"+x] = "vy" + x
			}
		}
		if k == "dir" || k == "all" {
			dir = "/dir-" + stageNames[i]
		}
		if k == "blank" { // an override may blank a setting of the task: the empty string is a value
			env["K"], env["T"] = "", ""
			vars["K"], vars["tv"] = "", ""
		}
		out = append(out, snap(env, vars, dir))
	}
	out = append(out, "direct:"+snap(taskEnv, taskVars, "/taskdir"))
	v2 := cp(taskVars)
	v2[".Stage.Name"] = "z"
	out = append(out, "second:"+snap(taskEnv, v2, "/taskdir"))
	return out
}

func body(c *Cfg) func() {
	return func() {
		var stages []config.VerifStageDef
		for i, k := range c.Kinds {
			s := config.VerifStageDef{Name: stageNames[i], Task: "shared", DependsOn: c.Deps[i]}
			if k == "env" || k == "all" {
				s.Env = map[string]string{"K": "env-" + stageNames[i], "E" + stageNames[i]: "x"}
			}
			if k == "vars" || k == "all" {
				s.Variables = map[string]string{"K": "var-" + stageNames[i], "V" + stageNames[i]: "y"}
			}
			if k == "dir" || k == "all" {
				s.Dir = "/dir-" + stageNames[i]
			}
			if k == "blank" {
				s.Env = map[string]string{"K": "", "T": ""}
				s.Variables = map[string]string{"K": "", "tv": ""}
			}
			if k == "all" {
				for _, x := range []string{"1", "2", "3", "4", "5"} {
					s.Env["X"+x] = "ex" + x
					s.Variables["Y"+x] = "vy" + x
				}
			}
			stages = append(stages, s)
		}
		// declaration order must be topological for AddStage; order by deps
		stages = topoStages(stages)
		cfg, err := config.VerifBuildConfig(
			map[string]config.VerifTaskDef{"shared": {Command: []string{"true"}, Dir: "/taskdir", Env: map[string]string{"T": "t", "K": "task"}, Variables: map[string]string{"tv": "1", "K": "task"}}},
			map[string][]config.VerifStageDef{"p1": stages, "p2": {{Name: "z", Task: "shared"}}})
		if err != nil {
			vrt.Emit("builderr", err.Error())
			return
		}
		r := &recRunner{}
		sd := scheduler.NewScheduler(r)
		if err := sd.Schedule(cfg.Pipelines["p1"]); err != nil {
			vrt.Emit("schederr", err.Error())
		}
		vrt.Emit("phase", "direct")
		r.Run(cfg.Tasks["shared"])
		vrt.Emit("phase", "second")
		sd2 := scheduler.NewScheduler(r)
		if err := sd2.Schedule(cfg.Pipelines["p2"]); err != nil {
			vrt.Emit("schederr", err.Error())
		}
		vrt.Emit("end", "")
	}
}

func topoStages(in []config.VerifStageDef) []config.VerifStageDef {
	done := map[string]bool{}
	var out []config.VerifStageDef
	for len(out) < len(in) {
		for _, s := range in {
			if done[s.Name] {
				continue
			}
			ok := true
			for _, d := range s.DependsOn {
				if !done[d] {
					ok = false
				}
			}
			if ok {
				done[s.Name] = true
				out = append(out, s)
			}
		}
	}
	return out
}

// varsOnly keeps the variables part of a snapshot (and its phase prefix): C10 is about variables only.
func varsOnly(s string) string {
	pre := ""
	if i := strings.Index(s, "env{"); i > 0 {
		pre = s[:i]
	}
	i, j := strings.Index(s, "vars{"), strings.Index(s, "} dir=")
	if i < 0 || j < i {
		return s
	}
	return pre + s[i:j+1]
}

// judge decides one execution for C08 (env, variables and dir) or, with -prop C10, for C10 (the stage's
// variables have the highest precedence for that stage, under every schedule, and for that stage only).
func judge(c *Cfg, x *vrt.Execution) (string, string) {
	k, d := judge08(c, x)
	if k != "" && prop() == "C10" {
		k = "C10:" + strings.TrimPrefix(k, "C08:")
	}
	return k, d
}

func prop() string {
	if *common.Prop == "C10" {
		return "C10"
	}
	return "C08"
}

func judge08(c *Cfg, x *vrt.Execution) (string, string) {
	c10 := prop() == "C10"
	if x.Outcome != vrt.Completed {
		return "C08:" + x.Outcome, fmt.Sprintf("%s %s %v %s", x.Outcome, x.PanicVal, x.Blocked, x.Stack)
	}
	phase := "p1"
	var got []string
	for _, e := range x.Events {
		switch e.Kind {
		case "builderr", "schederr":
			return "C08:" + e.Kind, e.Arg
		case "phase":
			phase = e.Arg
		case "changed-during-run":
			if parts := strings.SplitN(e.Arg, " => ", 2); c10 && len(parts) == 2 && varsOnly(parts[0]) == varsOnly(parts[1]) {
				continue
			}
			return "C08:task-changed-while-running", "the task object handed to the runner changed while the stage was running: " + e.Arg
		case "rec":
			switch phase {
			case "p1":
				got = append(got, e.Arg)
			default:
				got = append(got, phase+":"+e.Arg)
			}
		}
	}
	want := expected(c)
	g2, w2 := append([]string{}, got...), append([]string{}, want...)
	if c10 {
		for i := range g2 {
			g2[i] = varsOnly(g2[i])
		}
		for i := range w2 {
			w2[i] = varsOnly(w2[i])
		}
	}
	sort.Strings(g2)
	sort.Strings(w2)
	if strings.Join(g2, "\n") != strings.Join(w2, "\n") {
		// name the first difference
		for i := range w2 {
			if i >= len(g2) || g2[i] != w2[i] {
				o := "<missing>"
				if i < len(g2) {
					o = g2[i]
				}
				kind := "stage-sees-wrong-settings"
				if strings.HasPrefix(w2[i], "direct:") || strings.HasPrefix(o, "direct:") {
					kind = "direct-run-sees-stage-settings"
				} else if strings.HasPrefix(w2[i], "second:") || strings.HasPrefix(o, "second:") {
					kind = "other-pipeline-sees-stage-settings"
				}
				return "C08:" + kind, fmt.Sprintf("runner was handed %q, expected %q", o, w2[i])
			}
		}
		return "C08:extra-run", fmt.Sprintf("records %v, expected %v", g2, w2)
	}
	return "", ""
}

func main() {
	common.Init()
	logrus.SetOutput(io.Discard)
	logrus.StandardLogger().ExitFunc = func(int) { panic(vrt.AbortSentinel{Msg: "logrus.Fatal"}) }
	res := common.NewResult("overrides")
	type rfT struct {
		Harness  string `json:"harness"`
		Property string `json:"property"`
		Cfg      Cfg    `json:"cfg"`
		Choices  []int  `json:"choices"`
	}
	if *common.Replay != "" {
		var rf rfT
		common.ReadReplay(&rf)
		x := vrt.Replay(rf.Choices, nil, body(&rf.Cfg))
		fmt.Printf("config: %s\noutcome: %s\n", rf.Cfg, x.Outcome)
		for _, e := range x.Events {
			fmt.Println("  ", e)
		}
		if k, d := judge(&rf.Cfg, x); k != "" {
			fmt.Println("oracle:", k, d)
			fmt.Printf("VIOLATION property=%s replay=%s\n", prop(), *common.Replay)
			os.Exit(1)
		}
		return
	}
	bound := 2
	kindsAll := []string{"none", "env", "vars", "dir", "all", "blank"}
	shapes := map[int][][][]string{
		2: {{{}, {}}, {{}, {"s1"}}, {{"s2"}, {}}},
		3: {{{}, {}, {}}, {{}, {"s1"}, {"s2"}}, {{}, {"s1"}, {"s1"}}, {{}, {}, {"s1", "s2"}}, {{}, {"s1"}, {}}, {{"s3"}, {"s3"}, {}}},
	}
	var idx int64
	each := func(c Cfg, bound int) bool {
		c.Index = idx
		idx++
		if !common.Mine(c.Index) {
			return false
		}
		if common.Expired() {
			res.Exhaustive, res.Capped = false, "internal deadline"
			return true
		}
		var key, desc string
		var vx *vrt.Execution
		distinct := map[string]bool{}
		st := vrt.Explore(vrt.ExploreConfig{Bound: bound, Prune: true, Deadline: common.Deadline()}, body(&c), func(x *vrt.Execution) bool {
			if x.Outcome == vrt.Diverged {
				fmt.Fprintln(os.Stderr, "replay divergence", x.PanicVal)
				os.Exit(2)
			}
			var ev []string
			for _, e := range x.Events {
				ev = append(ev, e.String())
			}
			distinct[strings.Join(ev, ";")] = true
			if k, d := judge(&c, x); k != "" {
				key, desc, vx = k, d, x
				return false
			}
			return true
		})
		res.Configs++
		res.Evaluations += st.Execs
		res.Traces += st.Execs
		res.States += st.States
		res.Transitions += st.Transitions
		for k, n := range st.Outcomes {
			res.Outcomes[k] += n
		}
		if len(distinct) >= 2 {
			res.Nontrivial++
		}
		if key == "" && !st.Exhaustive {
			res.Exhaustive, res.Capped = false, st.Capped
			return true
		}
		if res.Configs%11 == 1 {
			res.AddSample(map[string]interface{}{"config": c.String(), "executions": st.Execs, "bound": bound})
		}
		if key != "" {
			y := vrt.Replay(vx.Choices, nil, body(&c))
			if y.Outcome != vx.Outcome || len(y.Events) != len(vx.Events) {
				fmt.Fprintln(os.Stderr, "non-deterministic replay")
				os.Exit(2)
			}
			return res.AddViolation(common.Violation{Property: prop(), Key: key + "|" + c.String(), Desc: c.String() + ": " + desc, Config: c, Choices: vx.Choices},
				rfT{Harness: "overrides", Property: prop(), Cfg: c, Choices: vx.Choices})
		}
		return false
	}
	res.Bound = bound
	if strings.HasPrefix(*common.Unit, "pairs-") {
		// the task is used by ONE stage of the pipeline only (then directly and by the second pipeline)
		for _, k1 := range kindsAll {
			if each(Cfg{Kinds: []string{k1}, Deps: [][]string{{}}}, 2) {
				goto done
			}
		}
	}
	switch *common.Unit {
	case "pairs-b2": // 2 stages: every ordered pair of override kinds in every arrangement, bound 2
		for _, sh := range shapes[2] {
			for _, k1 := range kindsAll {
				for _, k2 := range kindsAll {
					if each(Cfg{Kinds: []string{k1, k2}, Deps: sh}, 2) {
						goto done
					}
				}
			}
		}
	case "triples-b1": // 3 stages: every triple of kinds in every arrangement, bound 1
		res.Bound = 1
		for _, sh := range shapes[3] {
			for _, k1 := range kindsAll {
				for _, k2 := range kindsAll {
					for _, k3 := range kindsAll {
						if each(Cfg{Kinds: []string{k1, k2, k3}, Deps: sh}, 1) {
							goto done
						}
					}
				}
			}
		}
	case "triples-b2":
		for _, sh := range shapes[3] {
			for _, k1 := range kindsAll {
				for _, k2 := range kindsAll {
					for _, k3 := range kindsAll {
						if each(Cfg{Kinds: []string{k1, k2, k3}, Deps: sh}, 2) {
							goto done
						}
					}
				}
			}
		}
	case "pairs-b1":
		res.Bound = 1
		for _, sh := range shapes[2] {
			for _, k1 := range kindsAll {
				for _, k2 := range kindsAll {
					if each(Cfg{Kinds: []string{k1, k2}, Deps: sh}, 1) {
						goto done
					}
				}
			}
		}
	case "triples-b0":
		res.Bound = 0
		for _, sh := range shapes[3] {
			for _, k1 := range kindsAll {
				for _, k2 := range kindsAll {
					for _, k3 := range kindsAll {
						if each(Cfg{Kinds: []string{k1, k2, k3}, Deps: sh}, 0) {
							goto done
						}
					}
				}
			}
		}
	case "pairs-b3":
		res.Bound = 3
		for _, sh := range shapes[2] {
			for _, k1 := range kindsAll {
				for _, k2 := range kindsAll {
					if each(Cfg{Kinds: []string{k1, k2}, Deps: sh}, 3) {
						goto done
					}
				}
			}
		}
	default:
		fmt.Fprintln(os.Stderr, "unknown unit")
		os.Exit(2)
	}
done:
	res.Write()
}
