//go:build verif

package config

// VerifStageDef mirrors stageDefinition for harnesses.
type VerifStageDef struct {
	Name      string
	Task      string
	DependsOn []string
	Dir       string
	Env       map[string]string
	Variables map[string]string
}

// VerifTaskDef mirrors the part of taskDefinition the harness needs.
type VerifTaskDef struct {
	Command   []string
	Dir       string
	Env       map[string]string
	Variables map[string]string
}

// VerifBuildConfig builds a Config through buildFromDefinition, exactly as Load does after decoding.
func VerifBuildConfig(tasks map[string]VerifTaskDef, pipelines map[string][]VerifStageDef) (*Config, error) {
	def := &configDefinition{Tasks: map[string]*taskDefinition{}, Pipelines: map[string][]*stageDefinition{}}
	for n, t := range tasks {
		def.Tasks[n] = &taskDefinition{Command: t.Command, Dir: t.Dir, Env: t.Env, Variables: t.Variables}
	}
	for n, p := range pipelines { // only fills a map: iteration order is irrelevant
		for _, s := range p {
			def.Pipelines[n] = append(def.Pipelines[n], &stageDefinition{Name: s.Name, Task: s.Task, DependsOn: s.DependsOn, Dir: s.Dir, Env: s.Env, Variables: s.Variables})
		}
	}
	return buildFromDefinition(def, &loaderContext{})
}
