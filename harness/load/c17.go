//go:build verif

package main

type importCase struct{}

func unitC17(x *ctx)                  {}
func c17One(x *ctx, c importCase) bool { return false }
