//go:build verif

package main

import (
	"fmt"
	"os"
	"path/filepath"
	"sort"
	"strings"
)

// importCase: n files in nested directories; Edges[i][j] = file i imports file j.
type importCase struct {
	N       int      `json:"n"`
	Edges   [][2]int `json:"edges"`
	Broken  int      `json:"broken"` // index of the broken file, -1 none
	How     string   `json:"how"`    // "missing" | "unparsable"
	Formats []string `json:"formats"`
	Special string   `json:"special,omitempty"`
	Split   int      `json:"split,omitempty"` // global/project split mask
	Names   int      `json:"names,omitempty"` // file naming scheme
}

var fileDirs = []string{"", "sub", "sub/deep", "other"}

// naming schemes: 0 is the plain one; the others give distinct files paths that an identity test
// which is not exact (case folding, base name only, prefix or extension stripping) would confuse.
var nameSchemes = [][]string{
	nil,
	{"main", "Deploy", "deploy", "DEPLOY"},
	{"main", "api/tasks", "API/tasks", "Api/tasks"},
	{"main", "sub/a", "sub/a.b", "sub/a.b.c"},
	{"main", "x y", "x-y", "x_y"},
	{"f", "d/f", "d/d/f", "d/d/d/f"},
	{"main", "sub/main", "sub/Main", "Sub/main"},
}

func (c importCase) fileName(i int) string {
	if c.Names > 0 {
		return nameSchemes[c.Names][i] + "." + c.Formats[i]
	}
	return filepath.Join(fileDirs[i], fmt.Sprintf("f%d.%s", i, c.Formats[i]))
}

func (c importCase) String() string {
	if c.Names > 0 {
		return fmt.Sprintf("n=%d edges=%v broken=%d/%s formats=%v names=%q", c.N, c.Edges, c.Broken, c.How, c.Formats, nameSchemes[c.Names])
	}
	return fmt.Sprintf("n=%d edges=%v broken=%d/%s formats=%v special=%s split=%d", c.N, c.Edges, c.Broken, c.How, c.Formats, c.Special, c.Split)
}

func (c importCase) content(i int) string {
	var imports []string
	for _, e := range c.Edges {
		if e[0] == i {
			rel, _ := filepath.Rel(filepath.Join("/r", filepath.Dir(c.fileName(i))), filepath.Join("/r", c.fileName(e[1])))
			imports = append(imports, rel)
		}
	}
	doc := M{
		"tasks":     M{fmt.Sprintf("t%d", i): M{"command": L{fmt.Sprintf("echo %d", i)}, "env": M{"A": "b"}}},
		"pipelines": M{fmt.Sprintf("p%d", i): L{M{"task": fmt.Sprintf("t%d", i), "name": "s"}}},
	}
	if len(imports) > 0 {
		l := L{}
		for _, s := range imports {
			l = append(l, s)
		}
		doc["import"] = l
	}
	var b []byte
	switch c.Formats[i] {
	case "yaml":
		b, _ = emitYAML(doc)
	case "json":
		b, _ = emitJSON(doc)
	case "toml":
		b, _ = emitTOML(doc)
	}
	return string(b)
}

// reachable: files reached from f0 through imports; the imports of a broken file are not followed.
func (c importCase) reachable() map[int]bool {
	r := map[int]bool{0: true}
	for changed := true; changed; {
		changed = false
		for _, e := range c.Edges {
			if e[0] == c.Broken {
				continue
			}
			if r[e[0]] && !r[e[1]] {
				r[e[1]] = true
				changed = true
			}
		}
	}
	return r
}

func c17One(x *ctx, c importCase) bool {
	dir := newCaseDir(x.root)
	defer os.RemoveAll(dir)
	lc := LoadCase{Files: map[string]string{}, Main: c.fileName(0), Note: c.String()}
	var wantTasks, wantPipes []string
	wantErr := false
	switch c.Special {
	case "":
		reach := c.reachable()
		for i := 0; i < c.N; i++ {
			switch {
			case i == c.Broken && c.How == "missing":
			case i == c.Broken && c.How == "unparsable":
				lc.Files[c.fileName(i)] = map[string]string{"yaml": "tasks: [unclosed\n  x: {", "json": "{\"tasks\": ", "toml": "[tasks\nx ="}[c.Formats[i]]
			default:
				lc.Files[c.fileName(i)] = c.content(i)
			}
		}
		if c.Broken >= 0 && reach[c.Broken] {
			wantErr = true
		}
		for i := 0; i < c.N; i++ {
			if reach[i] && i != c.Broken {
				wantTasks = append(wantTasks, fmt.Sprintf("t%d", i))
				wantPipes = append(wantPipes, fmt.Sprintf("p%d", i))
			}
		}
	case "dir0", "dir1", "dir2", "dir-nested":
		// directory import: sub/ contains k yaml files and one non-yaml file
		k := map[string]int{"dir0": 0, "dir1": 1, "dir2": 2, "dir-nested": 2}[c.Special]
		lc.Files["f0.yaml"] = "import: [sub]\ntasks:\n  t0:\n    command: echo 0\n"
		lc.Files["sub/readme.txt"] = "not a config"
		wantTasks = []string{"t0"}
		for i := 1; i <= k; i++ {
			body := fmt.Sprintf("tasks:\n  d%d:\n    command: echo d\n", i)
			if c.Special == "dir-nested" && i == 1 {
				body = "import: [deep/x.yaml]\n" + body
				lc.Files["sub/deep/x.yaml"] = "tasks:\n  dx:\n    command: echo x\n"
				wantTasks = append(wantTasks, "dx")
			}
			lc.Files[fmt.Sprintf("sub/d%d.yaml", i)] = body
			wantTasks = append(wantTasks, fmt.Sprintf("d%d", i))
		}
		if k == 0 {
			lc.Files["sub/keep.txt"] = "x"
		}
		lc.Main = "f0.yaml"
	case "dir-member-missing-import", "dir-member-unparsable", "dir-member-missing-import-2", "dir-member-dangling-symlink-free":
		// a file inside an imported directory is broken (or imports something broken): the closure
		// contains a broken file, loading must fail
		lc.Files["f0.yaml"] = "import: [sub]\ntasks:\n  t0:\n    command: echo 0\n"
		lc.Files["sub/d1.yaml"] = "tasks:\n  d1:\n    command: echo d\n"
		switch c.Special {
		case "dir-member-missing-import":
			lc.Files["sub/d2.yaml"] = "import: [nope.yaml]\ntasks:\n  d2:\n    command: echo d\n"
			wantErr = true
		case "dir-member-unparsable":
			lc.Files["sub/d2.yaml"] = "tasks: [unclosed\n  x: {"
			wantErr = true
		case "dir-member-missing-import-2":
			lc.Files["sub/d2.yaml"] = "import: [deep/x.yaml]\ntasks:\n  d2:\n    command: echo d\n"
			lc.Files["sub/deep/x.yaml"] = "import: [gone.yaml]\ntasks:\n  dx:\n    command: echo x\n"
			wantErr = true
		default:
			lc.Files["sub/d2.yaml"] = "tasks:\n  d2:\n    command: echo d\n"
			wantTasks = []string{"t0", "d1", "d2"}
		}
		lc.Main = "f0.yaml"
		c.How = "missing-or-unparsable"
	case "symlink-import", "symlink-dir-member", "symlink-global", "symlink-main":
		// a file of the closure reached through a symbolic link is a file like any other
		real := "tasks:\n  t1:\n    command: echo 1\n"
		switch c.Special {
		case "symlink-import":
			lc.Files["f0.yaml"] = "import: [sub/link.yaml]\ntasks:\n  t0:\n    command: echo 0\n"
			lc.Files["store/real.yaml"] = real
			lc.Files["sub/link.yaml"] = "<SYMLINK>../store/real.yaml"
			wantTasks = []string{"t0", "t1"}
		case "symlink-dir-member":
			lc.Files["f0.yaml"] = "import: [sub]\ntasks:\n  t0:\n    command: echo 0\n"
			lc.Files["store/real.yaml"] = real
			lc.Files["sub/link.yaml"] = "<SYMLINK>../store/real.yaml"
			lc.Files["sub/d1.yaml"] = "tasks:\n  d1:\n    command: echo d\n"
			wantTasks = []string{"t0", "t1", "d1"}
		case "symlink-global":
			lc.Files["f0.yaml"] = "tasks:\n  t0:\n    command: echo 0\n"
			lc.Files["store/global.yaml"] = real
			lc.Home = map[string]string{".taskctl/config.yaml": "<SYMLINK>../../store/global.yaml"}
			wantTasks = []string{"t0", "t1"}
		case "symlink-main":
			lc.Files["store/real.yaml"] = "tasks:\n  t0:\n    command: echo 0\n"
			lc.Files["f0.yaml"] = "<SYMLINK>store/real.yaml"
			wantTasks = []string{"t0"}
		}
		lc.Main = "f0.yaml"
	case "dir-sibling-later", "dir-sibling-earlier", "dir-member-imports-dir", "dir-siblings-both":
		// a member of an imported directory imports a sibling (one the directory listing reaches later, or earlier),
		// or the directory itself: every file is still taken once
		member := func(name, imp string) string {
			b := ""
			if imp != "" {
				b = "import: " + imp + "\n"
			}
			return b + fmt.Sprintf("tasks:\n  %[1]s:\n    command: [echo %[1]s]\npipelines:\n  p%[1]s:\n    - task: %[1]s\n      name: s\n", name)
		}
		impA, impB := "", ""
		switch c.Special {
		case "dir-sibling-later":
			impA = "[b.yaml]"
		case "dir-sibling-earlier":
			impB = "[a.yaml]"
		case "dir-member-imports-dir":
			impA = "[.]"
		case "dir-siblings-both":
			impA, impB = "[b.yaml, c.yaml]", "[c.yaml]"
		}
		lc.Files["f0.yaml"] = "import: [sub]\ntasks:\n  t0:\n    command: echo 0\n"
		lc.Files["sub/a.yaml"] = member("da", impA)
		lc.Files["sub/b.yaml"] = member("db", impB)
		lc.Files["sub/c.yaml"] = member("dc", "")
		lc.Main = "f0.yaml"
		wantTasks, wantPipes = []string{"t0", "da", "db", "dc"}, []string{"pda", "pdb", "pdc"}
	case "global-imports-present", "global-imports-missing", "global-imports-unparsable", "global-imports-chain-missing":
		// the GLOBAL configuration has imports of its own: its closure is loaded like any other (definitions of the
		// imported file are available in the project), and a missing or unparsable file in it fails the load
		lc.Home = map[string]string{".taskctl/config.yaml": "import: [shared.yaml]\ntasks:\n  gt:\n    command: echo g\n"}
		switch c.Special {
		case "global-imports-present":
			lc.Home[".taskctl/shared.yaml"] = "tasks:\n  st:\n    command: echo s\n"
			wantTasks = []string{"gt", "st", "t0"}
		case "global-imports-unparsable":
			lc.Home[".taskctl/shared.yaml"] = "tasks: [unclosed\n  x: {"
			wantErr = true
		case "global-imports-chain-missing":
			lc.Home[".taskctl/shared.yaml"] = "import: [deeper.yaml]\ntasks:\n  st:\n    command: echo s\n"
			wantErr = true
		default:
			wantErr = true
		}
		lc.Files["f0.yaml"] = "tasks:\n  t0:\n    command: echo 0\n"
		lc.Main = "f0.yaml"
	case "twice", "two-spellings", "dir-and-file":
		imp := map[string]string{"twice": "[sub/f1.yaml, sub/f1.yaml]", "two-spellings": "[sub/f1.yaml, sub/../sub/f1.yaml, ./sub/f1.yaml]", "dir-and-file": "[sub, sub/f1.yaml]"}[c.Special]
		lc.Files["f0.yaml"] = "import: " + imp + "\ntasks:\n  t0:\n    command: echo 0\n"
		lc.Files["sub/f1.yaml"] = "tasks:\n  t1:\n    command: echo 1\npipelines:\n  p1:\n    - task: t1\n      name: s\n"
		lc.Main = "f0.yaml"
		wantTasks, wantPipes = []string{"t0", "t1"}, []string{"p1"}
	case "global":
		// 4 definitions, each in the global file (bit set) or the project file
		g, p := M{}, M{}
		put := func(bit int, section, name string, val interface{}) {
			dst := p
			if c.Split&(1<<uint(bit)) != 0 {
				dst = g
			}
			sec, _ := dst[section].(M)
			if sec == nil {
				sec = M{}
				dst[section] = sec
			}
			sec[name] = val
		}
		put(0, "tasks", "gt", M{"command": L{"echo {{.gv}}"}})
		put(1, "contexts", "gc", M{"dir": "."})
		put(2, "variables", "gv", "value")
		put(3, "tasks", "pt", M{"command": "echo p"})
		gb, _ := emitYAML(g)
		pb, _ := emitYAML(p)
		if len(g) > 0 {
			lc.Home = map[string]string{".taskctl/config.yaml": string(gb)}
		}
		lc.Files["f0.yaml"] = string(pb)
		if len(p) == 0 {
			lc.Files["f0.yaml"] = "{}\n"
		}
		lc.Main = "f0.yaml"
		wantTasks = []string{"gt", "pt"}
	}
	sort.Strings(wantTasks)
	sort.Strings(wantPipes)
	r := loadInProcess(dir, lc)
	defer r.release()
	if exhausted(r) {
		return false
	}
	x.res.Evaluations++
	x.kinds[fmt.Sprintf("edges=%d broken=%v special=%s names=%d", len(c.Edges), c.Broken >= 0, c.Special, c.Names)] = true
	switch {
	case r.hang:
		x.violation("hang", c.String(), "loading did not terminate within 30s: "+c.String(), c, false)
		return true
	case r.panic != "":
		x.violation("panic", r.site+":"+msgClass(r.panic), fmt.Sprintf("Loader.Load panicked in %s: %s (%s)", r.site, r.panic, c), c, false)
		return true
	case wantErr && r.err == nil:
		bf := c.Special
		if c.Broken >= 0 {
			bf = c.fileName(c.Broken)
		}
		x.violation("broken-import-ignored", fmt.Sprintf("how=%s", c.How), fmt.Sprintf("%s: a file in the import closure is %s but loading succeeded with tasks %v (%s)", bf, c.How, r.tasks, c), c, false)
		return true
	case !wantErr && r.err != nil:
		x.violation("spurious-error", c.String(), fmt.Sprintf("loading failed: %v (%s)", r.err, c), c, false)
		return true
	case wantErr:
		return false
	}
	if strings.Join(r.tasks, ",") != strings.Join(wantTasks, ",") {
		x.violation("wrong-closure", c.String(), fmt.Sprintf("loaded tasks %v, reachable closure defines %v (%s)", r.tasks, wantTasks, c), c, false)
		return true
	}
	if c.Special != "global" && strings.Join(r.pipes, ",") != strings.Join(wantPipes, ",") {
		x.violation("wrong-closure", c.String(), fmt.Sprintf("loaded pipelines %v, reachable closure defines %v (%s)", r.pipes, wantPipes, c), c, false)
		return true
	}
	if r.cfg != nil {
		for name, t := range r.cfg.Tasks {
			if t != nil && len(t.Commands) > 1 && strings.HasPrefix(name, "d") && strings.HasPrefix(c.Special, "dir-") {
				x.violation("not-once", c.String(), fmt.Sprintf("task %s has commands %q, its file declares one (%s)", name, t.Commands, c), c, false)
				return true
			}
		}
	}
	for p, n := range r.stages {
		if n != 1 {
			x.violation("not-once", c.String(), fmt.Sprintf("pipeline %s has %d stages, declared 1 (%s)", p, n, c), c, false)
			return true
		}
	}
	if c.Special == "global" {
		if r.cfg.Contexts["gc"] == nil {
			x.violation("global-missing", fmt.Sprintf("context split=%d", c.Split), "context gc is not available ("+c.String()+")", c, false)
			return true
		}
		if v, _ := r.cfg.Variables.Get("gv").(string); v != "value" {
			x.violation("global-missing", fmt.Sprintf("variable split=%d", c.Split&4), fmt.Sprintf("variable gv = %q, expected \"value\" (%s)", v, c), c, false)
			return true
		}
	}
	return false
}

func unitC17(x *ctx) {
	do := func(c importCase) {
		x.idx++
		if x.stop || !mine(x.idx) {
			return
		}
		if x.res.Evaluations%211 == 0 {
			x.res.AddSample(c.String())
		}
		c17One(x, c)
	}
	yaml3 := []string{"yaml", "yaml", "yaml", "yaml"}
	relations := func(n int, f func(edges [][2]int)) {
		for mask := 0; mask < 1<<uint(n*n); mask++ {
			var es [][2]int
			k := 0
			for i := 0; i < n; i++ {
				for j := 0; j < n; j++ {
					if mask&(1<<uint(k)) != 0 {
						es = append(es, [2]int{i, j})
					}
					k++
				}
			}
			f(es)
			if x.stop {
				return
			}
		}
	}
	switch *common_Unit() {
	case "c17-graphs3": // every import relation on 3 files x {fine, file i missing, file i unparsable}
		relations(3, func(es [][2]int) {
			do(importCase{N: 3, Edges: es, Broken: -1, Formats: yaml3})
			for _, b := range []int{1, 2} {
				for _, how := range []string{"missing", "unparsable"} {
					do(importCase{N: 3, Edges: es, Broken: b, How: how, Formats: yaml3})
				}
			}
		})
	case "c17-names": // every import relation on 3 files under every adversarial naming scheme, fault free and with one file missing
		for ns := 1; ns < len(nameSchemes); ns++ {
			relations(3, func(es [][2]int) {
				do(importCase{N: 3, Edges: es, Broken: -1, Formats: yaml3, Names: ns})
				for _, b := range []int{1, 2} {
					do(importCase{N: 3, Edges: es, Broken: b, How: "missing", Formats: yaml3, Names: ns})
				}
			})
		}
	case "c17-formats": // relations with <=2 edges x every assignment of formats
		fm := []string{"yaml", "json", "toml"}
		relations(3, func(es [][2]int) {
			if len(es) > 2 {
				return
			}
			for _, a := range fm {
				for _, b := range fm {
					for _, c := range fm {
						do(importCase{N: 3, Edges: es, Broken: -1, Formats: []string{a, b, c}})
						// one file of the closure missing / unparsable IN ITS OWN FORMAT (also the main file)
						for _, br := range []int{0, 1, 2} {
							for _, how := range []string{"missing", "unparsable"} {
								if br == 0 && how == "missing" {
									continue
								}
								do(importCase{N: 3, Edges: es, Broken: br, How: how, Formats: []string{a, b, c}})
							}
						}
					}
				}
			}
		})
	case "c17-special":
		for _, s := range []string{"dir0", "dir1", "dir2", "dir-nested", "dir-sibling-later", "dir-sibling-earlier", "dir-member-imports-dir", "dir-siblings-both", "global-imports-present", "global-imports-missing", "global-imports-unparsable", "global-imports-chain-missing", "twice", "two-spellings", "dir-and-file", "dir-member-missing-import", "dir-member-unparsable", "dir-member-missing-import-2", "dir-member-dangling-symlink-free", "symlink-import", "symlink-dir-member", "symlink-global", "symlink-main"} {
			do(importCase{Special: s, Broken: -1, Formats: yaml3})
		}
		for split := 0; split < 16; split++ {
			do(importCase{Special: "global", Split: split, Broken: -1, Formats: yaml3})
		}
	case "c17-graphs4": // thorough: every relation on 4 files, fault free
		relations(4, func(es [][2]int) {
			do(importCase{N: 4, Edges: es, Broken: -1, Formats: yaml3})
		})
	default:
		fmt.Fprintln(os.Stderr, "unknown unit")
		os.Exit(2)
	}
}
