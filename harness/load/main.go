//go:build verif

// Harness "load" (C15, C16, C17, C18): the real configuration loader on exhaustively enumerated
// documents / import graphs / reference faults, in-process under recover and through the binary.
package main

import (
	"fmt"
	"io"
	"os"
	"os/exec"
	"path/filepath"
	"regexp"
	"runtime"
	"runtime/debug"
	"sort"
	"strings"
	"syscall"
	"time"

	"github.com/sirupsen/logrus"

	"github.com/taskctl/taskctl/internal/config"
	"github.com/taskctl/taskctl/internal/vh/common"
	"github.com/taskctl/taskctl/internal/watch"
)

// LoadCase is one generated input: a set of files plus the file to load.
type LoadCase struct {
	Files map[string]string `json:"files"` // relative path -> content
	Main  string            `json:"main"`
	Note  string            `json:"note"`
	Home  map[string]string `json:"home,omitempty"` // files under $HOME
}

type loadResult struct {
	cfg    *config.Config
	err    error
	panic  string
	site   string
	hang   bool
	tasks  []string
	pipes  []string
	stages map[string]int
}

var frameRe = regexp.MustCompile(`^((?:github\.com|gopkg\.in)/\S+)\(`)

// panicSite: the first taskctl frame of the panicking stack (function name, no line numbers).
func panicSite(stack string) string {
	first := ""
	for _, l := range strings.Split(stack, "\n") {
		l = strings.TrimSpace(l)
		sm := frameRe.FindStringSubmatch(l)
		if sm == nil {
			continue
		}
		m := sm[1]
		if strings.Contains(m, "/internal/vh/") || strings.Contains(m, "runtime/debug") {
			continue
		}
		if first == "" {
			first = m
		}
		if strings.HasPrefix(m, "github.com/taskctl/taskctl/") {
			return strings.TrimPrefix(m, "github.com/taskctl/taskctl/")
		}
	}
	return first
}

func writeCase(dir string, c LoadCase) {
	for name, content := range c.Files {
		p := filepath.Join(dir, name)
		os.MkdirAll(filepath.Dir(p), 0o755)
		if content == "<DIR>" {
			os.MkdirAll(p, 0o755)
			continue
		}
		if strings.HasPrefix(content, "<SYMLINK>") { // a symbolic link to the named path (relative to the link's directory)
			os.Symlink(strings.TrimPrefix(content, "<SYMLINK>"), p)
			continue
		}
		os.WriteFile(p, []byte(content), 0o644)
	}
	os.MkdirAll(filepath.Join(dir, "home"), 0o755)
	for name, content := range c.Home {
		p := filepath.Join(dir, "home", name)
		os.MkdirAll(filepath.Dir(p), 0o755)
		if strings.HasPrefix(content, "<SYMLINK>") {
			os.Symlink(strings.TrimPrefix(content, "<SYMLINK>"), p)
			continue
		}
		os.WriteFile(p, []byte(content), 0o644)
	}
}

// loadInProcess runs Loader.Load on the case in a fresh directory (cwd and HOME point into it).
// loadInProcess retries when the process (or the user: inotify instances are a per-user resource
// shared with whatever else runs on the machine) is out of file descriptors / inotify instances;
// if that persists it is an infrastructure failure, never a verdict.
func loadInProcess(dir string, c LoadCase) loadResult {
	for attempt := 0; ; attempt++ {
		r := loadOnce(dir, c)
		if r.err == nil || !(strings.Contains(r.err.Error(), "too many open files") || strings.Contains(r.err.Error(), "no space left on device")) {
			return r
		}
		if attempt >= 8 {
			// persistent exhaustion caused by something else on the machine: this case is not
			// judged (the result is marked non-exhaustive), it is never turned into a verdict
			resourceSkips++
			return r
		}
		time.Sleep(time.Duration(300*(attempt+1)) * time.Millisecond)
	}
}

var resourceSkips int

// exhausted: the load failed only because the machine ran out of inotify instances / descriptors.
func exhausted(r loadResult) bool {
	return r.err != nil && (strings.Contains(r.err.Error(), "too many open files") || strings.Contains(r.err.Error(), "no space left on device"))
}

// closeLeakedInotify closes the inotify instances that a FAILED load left behind: taskctl creates
// one per configured watcher while building the configuration and has no reference to give back
// when a later section is rejected (a process that cannot load its configuration exits anyway).
// Inotify instances are a small per-user resource (128 by default), shared by all shards.
func closeLeakedInotify(before map[int]string) {
	ents, err := os.ReadDir("/proc/self/fd")
	if err != nil {
		return
	}
	// Each leaked fsnotify watcher also owns an epoll instance and a wake-up pipe, and its reader
	// goroutine sits in epoll_wait on an OS thread of its own; over a long unit these threads add up to
	// the runtime's 10000-thread limit. Only descriptors opened during this load are touched: wake every
	// reader through its pipe (it then fails on the closed inotify descriptor and parks on a channel,
	// which costs no thread), then close the lot.
	var inotify, pipes, epolls []int
	for _, e := range ents {
		var fd int
		fmt.Sscanf(e.Name(), "%d", &fd)
		l, err := os.Readlink("/proc/self/fd/" + e.Name())
		if err != nil || fd <= 2 || before[fd] == l {
			continue // (a descriptor number is reused: the listing's own directory handle had one)
		}
		switch {
		case strings.Contains(l, "inotify"):
			inotify = append(inotify, fd)
		case strings.HasPrefix(l, "pipe:"):
			pipes = append(pipes, fd)
		case strings.Contains(l, "eventpoll"):
			epolls = append(epolls, fd)
		}
	}
	if len(inotify) == 0 {
		return
	}
	for _, fd := range inotify {
		syscall.Close(fd)
	}
	for _, fd := range pipes {
		syscall.Write(fd, []byte{0}) // fails harmlessly on a read end
	}
	time.Sleep(2 * time.Millisecond)
	for _, fd := range pipes {
		syscall.Close(fd)
	}
	for _, fd := range epolls {
		syscall.Close(fd)
	}
}

func openDescriptors() map[int]string {
	m := map[int]string{}
	ents, _ := os.ReadDir("/proc/self/fd")
	for _, e := range ents {
		var fd int
		fmt.Sscanf(e.Name(), "%d", &fd)
		if l, err := os.Readlink("/proc/self/fd/" + e.Name()); err == nil {
			m[fd] = l
		}
	}
	return m
}

func loadOnce(dir string, c LoadCase) (res loadResult) {
	before := openDescriptors()
	defer func() {
		if res.err != nil || res.panic != "" {
			runtime.Gosched() // let the leaked watchers' readers reach their wait before they are woken
			closeLeakedInotify(before)
		}
		if os.Getenv("VERIF_FDDEBUG") != "" {
			n := 0
			for fd := range openDescriptors() {
				if l, _ := os.Readlink(fmt.Sprintf("/proc/self/fd/%d", fd)); strings.Contains(l, "inotify") {
					n++
				}
			}
			fmt.Fprintf(os.Stderr, "FDDEBUG inotify=%d err=%v panic=%q hang=%v note=%s\n", n, res.err, res.panic, res.hang, c.Note)
		}
	}()
	writeCase(dir, c)
	os.Setenv("HOME", filepath.Join(dir, "home"))
	os.Chdir(dir)
	ch := make(chan loadResult, 1)
	go func() {
		var r loadResult
		defer func() {
			if p := recover(); p != nil {
				r.panic = fmt.Sprint(p)
				r.site = panicSite(string(debug.Stack()))
			}
			ch <- r
		}()
		cl := config.NewConfigLoader(config.NewConfig())
		r.cfg, r.err = cl.Load(filepath.Join(dir, c.Main))
		if r.err == nil && r.cfg != nil {
			r.stages = map[string]int{}
			for k := range r.cfg.Tasks {
				r.tasks = append(r.tasks, k)
			}
			for k, p := range r.cfg.Pipelines {
				r.pipes = append(r.pipes, k)
				if p != nil {
					r.stages[k] = len(p.Nodes())
				}
			}
			sort.Strings(r.tasks)
			sort.Strings(r.pipes)
		}
	}()
	select {
	case r := <-ch:
		return r
	case <-time.After(30 * time.Second):
		return loadResult{hang: true}
	}
}

// release closes the inotify instances held by the watchers of a loaded configuration.
func (r loadResult) release() {
	if r.cfg != nil {
		for _, w := range r.cfg.Watchers {
			watch.VerifClose(w)
		}
	}
}

type binResult struct {
	out       string
	code      int
	hang      bool
	exhausted bool // the process could not get an inotify instance / descriptor: not judged
}

func runBinary(dir string, args ...string) binResult {
	var r binResult
	for attempt := 0; attempt < 6; attempt++ {
		r = runBinaryOnce(dir, args...)
		if !strings.Contains(r.out, "too many open files") {
			break
		}
		time.Sleep(time.Duration(300*(attempt+1)) * time.Millisecond) // per-user inotify exhaustion: retry
	}
	if strings.Contains(r.out, "too many open files") {
		r.exhausted = true
		resourceSkips++
	}
	return r
}

func runBinaryOnce(dir string, args ...string) binResult {
	cmd := exec.Command(os.Getenv("VERIF_TASKCTL"), args...)
	cmd.Dir = dir
	cmd.Env = []string{"HOME=" + filepath.Join(dir, "home"), "PATH=/usr/bin:/bin"}
	done := make(chan binResult, 1)
	go func() {
		out, err := cmd.CombinedOutput()
		r := binResult{out: string(out)}
		if err != nil {
			if ee, ok := err.(*exec.ExitError); ok {
				r.code = ee.ExitCode()
			} else {
				r.code = -100
			}
		}
		done <- r
	}()
	select {
	case r := <-done:
		return r
	case <-time.After(30 * time.Second):
		if cmd.Process != nil {
			cmd.Process.Kill()
		}
		return binResult{hang: true}
	}
}

func crashed(r binResult) string {
	if strings.Contains(r.out, "too many open files") {
		return "" // per-user inotify exhaustion caused by concurrent activity: not a property of taskctl
	}
	switch {
	case r.hang:
		return "did not finish within 30s"
	case strings.Contains(r.out, "panic:") || strings.Contains(r.out, "fatal error:") || strings.Contains(r.out, "goroutine "):
		return "crashed: " + firstLines(r.out, 6)
	case r.code != 0 && r.code != 1:
		return fmt.Sprintf("exit status %d: %s", r.code, firstLines(r.out, 4))
	}
	return ""
}

func firstLines(s string, n int) string {
	ls := strings.Split(strings.TrimSpace(s), "\n")
	if len(ls) > n {
		ls = ls[:n]
	}
	return strings.Join(ls, " | ")
}

var caseDirCounter int

func newCaseDir(root string) string {
	caseDirCounter++
	d := filepath.Join(root, fmt.Sprintf("c%d", caseDirCounter))
	os.MkdirAll(d, 0o755)
	d, _ = filepath.EvalSymlinks(d)
	return d
}

type ctx struct {
	res    *common.Result
	root   string
	target string
	idx    int64
	stop   bool
	kinds  map[string]bool
}

func (x *ctx) violation(kind, key, desc string, c interface{}, needBin bool) {
	if x.res.AddViolation(common.Violation{Property: x.target, Key: x.target + ":" + kind + "|" + key, Desc: desc, Config: c},
		map[string]interface{}{"harness": "load", "mode": "plain", "property": x.target, "needs_taskctl": needBin, "unit": *common.Unit, "case": c}) {
		x.stop = true
	}
}

func main() {
	common.Init()
	// a reader goroutine of a watcher leaked by a failed load can stay in epoll_wait on its own OS thread
	// (see closeLeakedInotify); the default limit of 10000 threads must not end a long unit
	debug.SetMaxThreads(60000)
	exec.Command("true").Run() // makes the runtime create its own poller descriptors before any snapshot is taken
	logrus.SetOutput(io.Discard)
	res := common.NewResult("load")
	root, _ := os.Getwd()
	x := &ctx{res: res, root: root, target: *common.Prop, kinds: map[string]bool{}}
	if *common.Replay != "" {
		replay(x)
		return
	}
	switch {
	case strings.HasPrefix(*common.Unit, "c15-"):
		unitC15(x)
	case strings.HasPrefix(*common.Unit, "c17-"):
		unitC17(x)
	case strings.HasPrefix(*common.Unit, "c18-"):
		unitC18(x)
	case strings.HasPrefix(*common.Unit, "c16-"):
		unitC16(x)
	default:
		fmt.Fprintln(os.Stderr, "unknown unit")
		os.Exit(2)
	}
	if res.Nontrivial == 0 {
		res.Nontrivial = int64(len(x.kinds))
	}
	if resourceSkips > 0 {
		res.Exhaustive = false
		res.Capped = fmt.Sprintf("%d cases not judged: inotify instances exhausted by other activity on the machine", resourceSkips)
		res.Extra["resource_skips"] = int64(resourceSkips)
	}
	res.Configs = res.Evaluations
	res.Write()
}

func replay(x *ctx) {
	var rf struct {
		Unit string  `json:"unit"`
		Case jsonRaw `json:"case"`
	}
	common.ReadReplay(&rf)
	*common.Unit = rf.Unit
	bad := false
	switch {
	case strings.HasPrefix(rf.Unit, "c15-"):
		var c LoadCase
		rf.Case.into(&c)
		bad = c15One(x, c, true, true)
	case strings.HasPrefix(rf.Unit, "c17-"):
		var c importCase
		rf.Case.into(&c)
		bad = c17One(x, c)
	case strings.HasPrefix(rf.Unit, "c18-"):
		var c refCase
		rf.Case.into(&c)
		bad = c18One(x, c)
	case strings.HasPrefix(rf.Unit, "c16-"):
		var c fmtCase
		rf.Case.into(&c)
		bad = c16One(x, c)
	}
	for _, v := range x.res.Violations {
		fmt.Println("oracle:", v.Key, "::", v.Desc)
	}
	if bad || len(x.res.Violations) > 0 {
		fmt.Printf("VIOLATION property=%s replay=%s\n", x.target, *common.Replay)
		os.Exit(1)
	}
	fmt.Println("no violation")
}
