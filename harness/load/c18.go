//go:build verif

package main

import (
	"fmt"
	"os"
	"sort"
	"strings"
)

// refCase: the base configuration with a list of edits applied.
type refCase struct {
	Edits  []refEdit `json:"edits"`
	Import bool      `json:"import,omitempty"` // the file also imports another (unrelated, valid) file: the merged document goes through the import path of the loader
	Global bool      `json:"global,omitempty"` // the document is the GLOBAL configuration ($HOME/.taskctl/config.yaml) and there is no project file: `taskctl <pipeline>` without -c
}

type refEdit struct {
	Kind     string `json:"kind"`
	Pipeline string `json:"pipeline,omitempty"`
	Stage    int    `json:"stage,omitempty"`
	Dep      int    `json:"dep,omitempty"`
	Value    string `json:"value,omitempty"`
}

func (c refCase) String() string {
	var parts []string
	for _, e := range c.Edits {
		parts = append(parts, fmt.Sprintf("%s(%s/%d/%d=%s)", e.Kind, e.Pipeline, e.Stage, e.Dep, e.Value))
	}
	pre := ""
	if c.Import {
		pre = "with-import:"
	}
	if c.Global {
		pre = "global-only:"
	}
	if len(parts) == 0 {
		return pre + "base"
	}
	return pre + strings.Join(parts, "+")
}

type absStage struct {
	Name, Task, Pipeline string
	Deps                 []string
	Unnamed              bool // no `name:` key: the stage is named after its task or pipeline
}

// eff is the name the stage goes by.
func (s *absStage) eff() string {
	if !s.Unnamed {
		return s.Name
	}
	if s.Task != "" {
		return s.Task
	}
	return s.Pipeline
}

type absConfig struct {
	Tasks     []string
	Pipelines map[string][]*absStage
	Watchers  map[string]string // watcher -> task
}

func baseRefConfig() *absConfig {
	return &absConfig{
		Tasks: []string{"t1", "t2", "t3"},
		Pipelines: map[string][]*absStage{
			"pa": {{Name: "a1", Task: "t1"}, {Name: "a2", Task: "t2", Deps: []string{"a1"}}, {Name: "a3", Task: "t3", Deps: []string{"a1", "a2"}}, {Name: "a4", Pipeline: "pb", Deps: []string{"a3"}}},
			"pb": {{Name: "b1", Task: "t1"}, {Name: "b2", Task: "t2", Deps: []string{"b1"}}, {Name: "b3", Pipeline: "pc", Deps: []string{"b1"}}},
			"pc": {{Name: "c1", Task: "t3"}, {Name: "c2", Task: "t1", Deps: []string{"c1"}}, {Name: "c3", Task: "t2", Deps: []string{"c1"}}},
			// explicit names that coincide with task and pipeline names, and one stage that has no name of its own
			"pd": {{Name: "t1", Task: "t2"}, {Name: "d2", Task: "t1"}, {Name: "pc", Task: "t3"}, {Name: "d4", Pipeline: "pc"}, {Task: "t3", Unnamed: true, Deps: []string{"t1"}}},
		},
		Watchers: map[string]string{"w1": "t2"},
	}
}

func (a *absConfig) apply(e refEdit) {
	st := func() *absStage { return a.Pipelines[e.Pipeline][e.Stage] }
	switch e.Kind {
	case "stage-task": // stage refers to task Value
		st().Task = e.Value
	case "stage-pipeline":
		st().Task, st().Pipeline = "", e.Value
	case "dep":
		st().Deps[e.Dep] = e.Value
	case "add-dep":
		st().Deps = append(st().Deps, e.Value)
	case "watcher-task":
		a.Watchers["w1"] = e.Value
	case "stage-name":
		st().Name, st().Unnamed = e.Value, false
	case "unname":
		st().Unnamed = true
	case "neither":
		st().Task, st().Pipeline = "", ""
	case "both":
		st().Pipeline = e.Value
	}
}

// wellFormed is the independent validator over the abstract configuration.
func (a *absConfig) wellFormed() (bool, string) {
	tasks := map[string]bool{}
	for _, t := range a.Tasks {
		tasks[t] = true
	}
	for w, t := range a.Watchers {
		if !tasks[t] {
			return false, "watcher " + w + " -> unknown task " + t
		}
	}
	for pn, stages := range a.Pipelines {
		names := map[string]bool{}
		for _, s := range stages {
			n := s.eff()
			if s.Unnamed && n == "" {
				return false, "stage without name, task and pipeline in " + pn
			}
			if names[n] {
				return false, "duplicate stage name " + n + " in " + pn
			}
			names[n] = true
			switch {
			case s.Task != "":
				if !tasks[s.Task] {
					return false, "stage " + n + " -> unknown task " + s.Task
				}
			case s.Pipeline != "":
				if _, ok := a.Pipelines[s.Pipeline]; !ok {
					return false, "stage " + n + " -> unknown pipeline " + s.Pipeline
				}
			default:
				return false, "stage " + n + " has neither task nor pipeline"
			}
		}
		for _, s := range stages {
			for _, d := range s.Deps {
				if !names[d] {
					return false, "stage " + s.eff() + " depends on unknown stage " + d
				}
			}
		}
	}
	// a cyclic depends_on relation is rejected as well (that equivalence is C05's)
	for pn, stages := range a.Pipelines {
		col := map[string]int{}
		deps := map[string][]string{}
		for _, s := range stages {
			deps[s.eff()] = s.Deps
		}
		var dfs func(n string) bool
		dfs = func(n string) bool {
			col[n] = 1
			for _, d := range deps[n] {
				if col[d] == 1 || (col[d] == 0 && dfs(d)) {
					return true
				}
			}
			col[n] = 2
			return false
		}
		for _, s := range stages {
			if col[s.eff()] == 0 && dfs(s.eff()) {
				return false, "depends_on cycle in " + pn
			}
		}
	}
	// inclusion cycles
	state := map[string]int{}
	var visit func(p string) bool
	visit = func(p string) bool {
		if state[p] == 1 {
			return true
		}
		if state[p] == 2 {
			return false
		}
		state[p] = 1
		for _, s := range a.Pipelines[p] {
			if s.Task == "" && s.Pipeline != "" && visit(s.Pipeline) {
				return true
			}
		}
		state[p] = 2
		return false
	}
	var pns []string
	for p := range a.Pipelines {
		pns = append(pns, p)
	}
	sort.Strings(pns)
	for _, p := range pns {
		if visit(p) {
			return false, "pipeline inclusion cycle through " + p
		}
	}
	return true, ""
}

func (a *absConfig) yaml() string {
	var b strings.Builder
	b.WriteString("tasks:\n")
	for _, t := range a.Tasks {
		fmt.Fprintf(&b, "  %s:\n    command: \"true\"\n", t)
	}
	b.WriteString("pipelines:\n")
	var pns []string
	for p := range a.Pipelines {
		pns = append(pns, p)
	}
	sort.Strings(pns)
	for _, p := range pns {
		fmt.Fprintf(&b, "  %s:\n", p)
		for _, s := range a.Pipelines[p] {
			first := "    - "
			if !s.Unnamed {
				fmt.Fprintf(&b, "    - name: %s\n", s.Name)
				first = "      "
			}
			if s.Task != "" {
				fmt.Fprintf(&b, "%stask: %s\n", first, s.Task)
				first = "      "
			}
			if s.Pipeline != "" {
				fmt.Fprintf(&b, "%spipeline: %s\n", first, s.Pipeline)
				first = "      "
			}
			if first == "    - " {
				b.WriteString("    - {}\n")
				continue
			}
			if len(s.Deps) > 0 {
				fmt.Fprintf(&b, "      depends_on: [%s]\n", quoteAll(s.Deps))
			}
		}
	}
	b.WriteString("watchers:\n")
	for w, t := range a.Watchers {
		fmt.Fprintf(&b, "  %s:\n    watch: [\"*.nothing\"]\n    task: %s\n", w, t)
	}
	return b.String()
}

func quoteAll(in []string) string {
	var qs []string
	for _, d := range in {
		qs = append(qs, fmt.Sprintf("%q", d))
	}
	return strings.Join(qs, ", ")
}

func c18One(x *ctx, c refCase) bool {
	a := baseRefConfig()
	for _, e := range c.Edits {
		a.apply(e)
	}
	for _, stages := range a.Pipelines {
		for _, s := range stages {
			if s.Unnamed && s.Task != "" && s.Pipeline != "" {
				return false // which of the two names such a stage is not defined by the property: not judged
			}
		}
	}
	ok, why := a.wellFormed()
	dir := newCaseDir(x.root)
	defer os.RemoveAll(dir)
	if c.Global {
		return c18Global(x, c, a, ok, why, dir)
	}
	lc := LoadCase{Files: map[string]string{"cfg.yaml": a.yaml()}, Main: "cfg.yaml", Note: c.String()}
	if c.Import {
		lc.Files["cfg.yaml"] = "import: [extra.yaml]\n" + a.yaml()
		lc.Files["extra.yaml"] = "tasks:\n  extra:\n    command: \"true\"\n"
	}
	r := loadInProcess(dir, lc)
	r.release()
	if exhausted(r) {
		return false
	}
	x.res.Evaluations++
	kinds := ""
	for _, e := range c.Edits {
		kinds += e.Kind + ","
	}
	x.kinds[fmt.Sprintf("%s wellformed=%v import=%v", kinds, ok, c.Import)] = true
	switch {
	case r.hang:
		x.violation("hang", "load "+kinds, "loading did not terminate: "+c.String(), c, false)
		return true
	case r.panic != "":
		x.violation("panic", r.site+":"+msgClass(r.panic), fmt.Sprintf("Loader.Load panicked in %s: %s (%s)", r.site, r.panic, c), c, false)
		return true
	case !ok && r.err == nil:
		x.violation("accepted-dangling", kinds, fmt.Sprintf("configuration accepted although %s (%s)", why, c), c, false)
		// fall through to running it: the consequence clause
	case ok && r.err != nil:
		x.violation("rejected-wellformed", kinds, fmt.Sprintf("well-formed configuration rejected: %v (%s)", r.err, c), c, false)
		return true
	}
	if r.err != nil || os.Getenv("VERIF_TASKCTL") == "" {
		return !ok && r.err == nil
	}
	bad := !ok
	for _, p := range r.pipes {
		b := runBinary(dir, "-c", "cfg.yaml", "--output", "raw", p)
		x.res.Extra["binary_runs"]++
		switch {
		case b.exhausted:
			// not judged
		case b.hang:
			x.violation("run-hangs", kinds, fmt.Sprintf("running pipeline %s of an accepted configuration did not finish within 30s (%s)", p, c), c, true)
			bad = true
		case strings.Contains(b.out, "panic:") || strings.Contains(b.out, "fatal error:"):
			x.violation("run-crashes", kinds, fmt.Sprintf("running pipeline %s crashed: %s (%s)", p, firstLines(b.out, 5), c), c, true)
			bad = true
		case b.code != 0 && ok:
			x.violation("run-fails", kinds, fmt.Sprintf("running pipeline %s of a well-formed configuration of `true` tasks exited %d: %s (%s)", p, b.code, firstLines(b.out, 5), c), c, true)
			bad = true
		case b.code != 0 && strings.Contains(b.out, "unknown task"):
			x.violation("run-aborts", kinds, fmt.Sprintf("running pipeline %s aborted the process from inside the scheduler: %s (%s)", p, firstLines(b.out, 3), c), c, true)
			bad = true
		}
	}
	return bad
}

// c18Global: the same documents as the only configuration there is - the global one, found through $HOME, no
// project file anywhere and no -c: a dangling reference must stop `taskctl <pipeline>` before anything runs.
func c18Global(x *ctx, c refCase, a *absConfig, ok bool, why string, dir string) bool {
	if os.Getenv("VERIF_TASKCTL") == "" {
		return false
	}
	wd := dir + "/empty"
	os.MkdirAll(wd+"/home/.taskctl", 0o755)
	os.WriteFile(wd+"/home/.taskctl/config.yaml", []byte(a.yaml()), 0o644)
	kinds := "global,"
	for _, e := range c.Edits {
		kinds += e.Kind + ","
	}
	var pns []string
	for p := range a.Pipelines {
		pns = append(pns, p)
	}
	sort.Strings(pns)
	x.res.Evaluations++
	x.kinds[fmt.Sprintf("%s wellformed=%v", kinds, ok)] = true
	bad := false
	for _, p := range pns {
		b := runBinary(wd, "--output", "raw", p)
		x.res.Extra["binary_runs"]++
		switch {
		case b.exhausted:
		case b.hang:
			x.violation("run-hangs", kinds, fmt.Sprintf("`taskctl %s` with this document as the global configuration did not finish within 30s (%s)", p, c), c, true)
			bad = true
		case strings.Contains(b.out, "panic:") || strings.Contains(b.out, "fatal error:"):
			x.violation("run-crashes", kinds, fmt.Sprintf("`taskctl %s` crashed: %s (%s)", p, firstLines(b.out, 5), c), c, true)
			bad = true
		case ok && b.code != 0:
			x.violation("run-fails", kinds, fmt.Sprintf("`taskctl %s` with a well-formed global configuration of `true` tasks exited %d: %s (%s)", p, b.code, firstLines(b.out, 5), c), c, true)
			bad = true
		case !ok && b.code == 0:
			x.violation("accepted-dangling", kinds, fmt.Sprintf("`taskctl %s` succeeded although %s (%s)", p, why, c), c, true)
			bad = true
		case !ok && strings.Contains(b.out, "unknown task") && !strings.Contains(b.out, "invalid config"):
			x.violation("run-aborts", kinds, fmt.Sprintf("`taskctl %s` was aborted from inside the scheduler instead of being rejected at load time: %s (%s)", p, firstLines(b.out, 3), c), c, true)
			bad = true
		}
	}
	return bad
}

func refEdits() []refEdit {
	base := baseRefConfig()
	var out []refEdit
	var pns []string
	for p := range base.Pipelines {
		pns = append(pns, p)
	}
	sort.Strings(pns)
	for _, p := range pns {
		for i, s := range base.Pipelines[p] {
			if s.Task != "" {
				out = append(out, refEdit{Kind: "stage-task", Pipeline: p, Stage: i, Value: "nope"}) // broken
				out = append(out, refEdit{Kind: "stage-task", Pipeline: p, Stage: i, Value: "t3"})   // repaired / other valid
				if !s.Unnamed {                                                                      // which of the two names an unnamed stage is not something the property defines
					out = append(out, refEdit{Kind: "both", Pipeline: p, Stage: i, Value: "pc"})
				}
			} else {
				out = append(out, refEdit{Kind: "stage-pipeline", Pipeline: p, Stage: i, Value: "nope"})
				out = append(out, refEdit{Kind: "stage-pipeline", Pipeline: p, Stage: i, Value: "pc"})
			}
			out = append(out, refEdit{Kind: "neither", Pipeline: p, Stage: i})
			if !s.Unnamed {
				out = append(out, refEdit{Kind: "unname", Pipeline: p, Stage: i})
			}
			for d := range s.Deps {
				out = append(out, refEdit{Kind: "dep", Pipeline: p, Stage: i, Dep: d, Value: "ghost"})
				out = append(out, refEdit{Kind: "dep", Pipeline: p, Stage: i, Dep: d, Value: ""})
				out = append(out, refEdit{Kind: "dep", Pipeline: p, Stage: i, Dep: d, Value: base.Pipelines[p][0].eff()})
			}
			out = append(out, refEdit{Kind: "add-dep", Pipeline: p, Stage: i, Value: "ghost"})
			out = append(out, refEdit{Kind: "add-dep", Pipeline: p, Stage: i, Value: ""}) // a blank entry names no stage either
			out = append(out, refEdit{Kind: "add-dep", Pipeline: p, Stage: i, Value: " "})
			// a dependency on a stage of another pipeline is dangling too
			other := "c1"
			if p == "pc" {
				other = "a1"
			}
			out = append(out, refEdit{Kind: "add-dep", Pipeline: p, Stage: i, Value: other})
			for j := range base.Pipelines[p] {
				if j != i {
					out = append(out, refEdit{Kind: "stage-name", Pipeline: p, Stage: i, Value: base.Pipelines[p][j].eff()})
				}
			}
			out = append(out, refEdit{Kind: "stage-name", Pipeline: p, Stage: i, Value: "fresh"})
			// inclusion cycles: make this stage include pipeline q
			for _, q := range pns {
				out = append(out, refEdit{Kind: "stage-pipeline", Pipeline: p, Stage: i, Value: q})
			}
		}
	}
	out = append(out, refEdit{Kind: "watcher-task", Value: "nope"}, refEdit{Kind: "watcher-task", Value: "t1"})
	return out
}

func unitC18(x *ctx) {
	edits := refEdits()
	do := func(c refCase) {
		x.idx++
		if x.stop || !mine(x.idx) {
			return
		}
		if x.res.Evaluations%17 == 0 {
			x.res.AddSample(c.String())
		}
		c18One(x, c)
	}
	switch *common_Unit() {
	case "c18-single":
		do(refCase{})
		for _, e := range edits {
			do(refCase{Edits: []refEdit{e}})
		}
		// the same documents as the global configuration, with no project file at all
		do(refCase{Global: true})
		for _, e := range edits {
			do(refCase{Edits: []refEdit{e}, Global: true})
		}
		// the same with an import section in the file
		do(refCase{Import: true})
		for _, e := range edits {
			do(refCase{Edits: []refEdit{e}, Import: true})
		}
	case "c18-pairs":
		for i, e := range edits {
			for _, f := range edits[i+1:] {
				if e.Pipeline == f.Pipeline && e.Stage == f.Stage && e.Kind == f.Kind {
					continue
				}
				do(refCase{Edits: []refEdit{e, f}})
				if expired() {
					x.res.Exhaustive, x.res.Capped = false, "internal deadline"
					return
				}
			}
		}
	default:
		fmt.Fprintln(os.Stderr, "unknown unit")
		os.Exit(2)
	}
}
