//go:build verif

package runner

import (
	"reflect"
	"unsafe"

	"github.com/taskctl/taskctl/pkg/variables"
)

// VerifHooks returns a context's up/down/before/after commands. Which private field holds which list is
// found out once by building a probe context through the exported constructor with sentinel values:
// renaming or reordering the fields does not matter.
var verifHookFields = func() (idx [4]int) {
	probe := NewExecutionContext(nil, "", variables.NewVariables(), []string{"\x00up"}, []string{"\x00down"}, []string{"\x00before"}, []string{"\x00after"})
	v := reflect.ValueOf(probe).Elem()
	want := []string{"\x00up", "\x00down", "\x00before", "\x00after"}
	for k := range idx {
		idx[k] = -1
	}
	for i := 0; i < v.NumField(); i++ {
		if v.Field(i).Type() != reflect.TypeOf([]string(nil)) {
			continue
		}
		f := v.Field(i)
		s := reflect.NewAt(f.Type(), unsafe.Pointer(f.UnsafeAddr())).Elem().Interface().([]string)
		for k, w := range want {
			if len(s) == 1 && s[0] == w {
				idx[k] = i
			}
		}
	}
	for k := range idx {
		if idx[k] < 0 {
			panic("verif seam: cannot locate the hook lists of ExecutionContext")
		}
	}
	return
}()

func VerifHooks(c *ExecutionContext) (up, down, before, after []string) {
	v := reflect.ValueOf(c).Elem()
	get := func(i int) []string {
		f := v.Field(i)
		return reflect.NewAt(f.Type(), unsafe.Pointer(f.UnsafeAddr())).Elem().Interface().([]string)
	}
	return get(verifHookFields[0]), get(verifHookFields[1]), get(verifHookFields[2]), get(verifHookFields[3])
}
