//go:build verif

package runner

// VerifHooks exposes the hook lists of an execution context to the harnesses.
func VerifHooks(c *ExecutionContext) (up, down, before, after []string) {
	return c.up, c.down, c.before, c.after
}
