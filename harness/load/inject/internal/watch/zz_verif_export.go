//go:build verif

package watch

import (
	"reflect"
	"sort"
	"unsafe"

	"github.com/fsnotify/fsnotify"

	"github.com/taskctl/taskctl/pkg/task"
)

// The harness reads a Watcher's private state by TYPE, not by field name: the observed paths are its
// only []string field, the subscribed events its only map[string]bool, the task its only *task.Task and
// the fsnotify watcher its only *fsnotify.Watcher. Renaming or reordering the fields does not matter.
func verifField(w *Watcher, t reflect.Type) reflect.Value {
	v := reflect.ValueOf(w).Elem()
	var found reflect.Value
	n := 0
	for i := 0; i < v.NumField(); i++ {
		if v.Field(i).Type() == t {
			f := v.Field(i)
			found = reflect.NewAt(f.Type(), unsafe.Pointer(f.UnsafeAddr())).Elem()
			n++
		}
	}
	if n != 1 {
		panic("verif seam: Watcher has " + string(rune('0'+n)) + " fields of type " + t.String() + ", expected exactly one")
	}
	return found
}

func verifFsw(w *Watcher) *fsnotify.Watcher {
	return verifField(w, reflect.TypeOf((*fsnotify.Watcher)(nil))).Interface().(*fsnotify.Watcher)
}

func VerifDump(w *Watcher) (paths []string, events []string, taskName string) {
	paths = append(paths, verifField(w, reflect.TypeOf([]string(nil))).Interface().([]string)...)
	for e, on := range verifField(w, reflect.TypeOf(map[string]bool(nil))).Interface().(map[string]bool) {
		if on {
			events = append(events, e)
		}
	}
	sort.Strings(events)
	if t := verifField(w, reflect.TypeOf((*task.Task)(nil))).Interface().(*task.Task); t != nil {
		taskName = t.Name
	}
	return
}

func VerifClose(w *Watcher) {
	if w != nil {
		if f := verifFsw(w); f != nil {
			f.Close()
		}
	}
}

// VerifDetach shuts the real fsnotify watcher down and replaces its channels by harness-owned ones.
func VerifDetach(w *Watcher, events chan fsnotify.Event, errors chan error) {
	f := verifFsw(w)
	f.Close()
	for range f.Events {
	}
	for range f.Errors {
	}
	f.Events = events
	f.Errors = errors
}
