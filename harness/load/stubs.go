//go:build verif

package main

type refCase struct{}
type fmtCase struct{}

func unitC18(x *ctx)               {}
func unitC16(x *ctx)               {}
func c18One(x *ctx, c refCase) bool { return false }
func c16One(x *ctx, c fmtCase) bool { return false }
