//go:build verif

package main

type fmtCase struct{}

func unitC16(x *ctx)               {}
func c16One(x *ctx, c fmtCase) bool { return false }
