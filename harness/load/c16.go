//go:build verif

package main

import (
	"fmt"
	"os"
	"regexp"
	"sort"
	"strings"

	"github.com/taskctl/taskctl/internal/config"
	"github.com/taskctl/taskctl/internal/watch"
	"github.com/taskctl/taskctl/pkg/runner"
	"github.com/taskctl/taskctl/pkg/variables"
)

// fmtCase: the base abstract configuration with replacements applied (path -> shape name).
type fmtCase struct {
	Sets []fmtSet `json:"sets"`
}

type fmtSet struct {
	Path  string `json:"path"`
	Shape string `json:"shape"`
}

func (c fmtCase) String() string {
	var p []string
	for _, s := range c.Sets {
		p = append(p, s.Path+"="+s.Shape)
	}
	if len(p) == 0 {
		return "base"
	}
	return strings.Join(p, " ")
}

func fmtBase() M {
	return M{
		"variables": M{"gv": "g"},
		"contexts": M{
			"cx": M{"dir": ".", "env": M{"CE": "1"}, "up": L{"echo up >> trace"}, "down": L{"echo down >> trace"}, "before": L{"echo cb >> trace"}, "after": L{"echo ca >> trace"}},
		},
		"tasks": M{
			"t1": M{"command": L{"echo \"t1 E=$E V=$V tv={{.tv}} gv={{.gv}}\""}, "env": M{"E": "e"}, "variables": M{"tv": "v"}, "description": "first"},
			"t2": M{"command": L{"echo t2a", "echo t2b"}, "context": "cx", "before": L{"echo b"}, "after": L{"echo a"}, "allow_failure": false, "timeout": "10s", "dir": "."},
			"t3": M{"command": "echo t3; exit 3", "allow_failure": true, "condition": "true", "exportas": "T3OUT"},
		},
		"pipelines": M{
			"p1": L{
				M{"task": "t1", "name": "s1", "env": M{"SE": "1"}, "variables": M{"sv": "1"}},
				M{"task": "t2", "name": "s2", "depends_on": L{"s1"}},
				M{"task": "t3", "name": "s3", "depends_on": L{"s1", "s2"}, "allow_failure": true, "condition": "true"},
			},
			"p2": L{M{"task": "t1"}, M{"pipeline": "p1", "name": "inner", "depends_on": "t1"}},
		},
		"watchers": M{
			"w1": M{"watch": L{"w*.txt", "w*.log"}, "exclude": L{"wx*"}, "events": L{"write", "create"}, "task": "t1", "variables": M{"wv": "1"}},
		},
	}
}

type shapeT struct {
	name string
	val  interface{}
}

// fmtVariations: for every documented key the value shapes the loader claims to accept.
func fmtVariations() map[string][]shapeT {
	strOrList := func(a, b string) []shapeT {
		return []shapeT{{"string", a}, {"list1", L{a}}, {"list2", L{a, b}}, {"empty-list", L{}}}
	}
	v := map[string][]shapeT{
		"/tasks/t1/command":             strOrList("echo one", "echo two"),
		"/tasks/t2/before":              strOrList("echo b1", "echo b2"),
		"/tasks/t2/after":               strOrList("echo a1", "echo a2"),
		"/tasks/t2/timeout":             {{"1s", "1s"}, {"1500ms", "1500ms"}, {"2m", "2m"}, {"int-ns", 2000000000}, {"1h30m", "1h30m"}},
		"/tasks/t2/allow_failure":       {{"true", true}, {"false", false}},
		"/tasks/t2/interactive":         {{"true", true}, {"false", false}},
		"/tasks/t2/dir":                 {{"dot", "."}, {"tmpl", "{{.Root}}"}},
		"/tasks/t2/context":             {{"cx", "cx"}},
		"/tasks/t1/description":         {{"string", "words here"}, {"int", 5}, {"float", 1.5}, {"bool", true}},
		"/tasks/t1/name":                {{"string", "renamed"}, {"int", 7}},
		"/tasks/t1/condition":           {{"true", "true"}, {"false", "false"}},
		"/tasks/t1/exportas":            {{"string", "OUT1"}},
		"/tasks/t1/env":                 {{"strings", M{"E": "x", "F": "y"}}, {"int", M{"E": 5}}, {"float", M{"E": 1.5}}, {"bool", M{"E": true}}, {"empty", M{}}},
		"/tasks/t1/variables":           {{"strings", M{"tv": "x"}}, {"int", M{"tv": 5}}, {"float", M{"tv": 2.5}}, {"bool", M{"tv": false}}},
		"/tasks/t1/variations":          {{"two", L{M{"V": "a"}, M{"V": "b"}}}, {"one", L{M{"V": "a"}}}, {"int", L{M{"V": 1}}}, {"empty", L{}}},
		"/tasks/t1/env_file":            {{"file", "t1.env"}},
		"/contexts/cx/up":               strOrList("echo u1 >> trace", "echo u2 >> trace"),
		"/contexts/cx/down":             strOrList("echo d1 >> trace", "echo d2 >> trace"),
		"/contexts/cx/before":           strOrList("echo cb1 >> trace", "echo cb2 >> trace"),
		"/contexts/cx/after":            strOrList("echo ca1 >> trace", "echo ca2 >> trace"),
		"/contexts/cx/env":              {{"strings", M{"CE": "2", "CF": "3"}}, {"int", M{"CE": 2}}},
		"/contexts/cx/variables":        {{"strings", M{"cv": "1"}}, {"int", M{"cv": 1}}},
		"/contexts/cx/dir":              {{"dot", "."}, {"abs", "/tmp"}},
		"/contexts/cx/quote":            {{"single", "'"}, {"double", "\""}},
		"/contexts/cx/executable":       {{"sh", M{"bin": "/bin/sh", "args": L{"-c"}}}, {"noargs", M{"bin": "/bin/echo"}}, {"args2", M{"bin": "/bin/sh", "args": L{"-e", "-c"}}}},
		"/pipelines/p1/1/depends_on":    {{"string", "s1"}, {"list1", L{"s1"}}, {"empty-list", L{}}},
		"/pipelines/p1/2/depends_on":    {{"list2", L{"s1", "s2"}}, {"list2-rev", L{"s2", "s1"}}, {"string", "s2"}},
		"/pipelines/p1/0/env":           {{"strings", M{"SE": "2"}}, {"int", M{"SE": 2}}, {"bool", M{"SE": true}}},
		"/pipelines/p1/0/variables":     {{"strings", M{"sv": "2"}}, {"int", M{"sv": 2}}},
		"/pipelines/p1/0/dir":           {{"dot", "."}, {"abs", "/tmp"}},
		"/pipelines/p1/0/condition":     {{"true", "true"}, {"false", "false"}},
		"/pipelines/p1/0/allow_failure": {{"true", true}, {"false", false}},
		"/pipelines/p1/2/name":          {{"string", "s3"}, {"int", 3}, {"float", 1.5}},
		"/watchers/w1/watch":            strOrList("w*.txt", "w*.md"),
		"/watchers/w1/exclude":          strOrList("wx*", "wy*"),
		"/watchers/w1/events":           strOrList("write", "remove"),
		"/watchers/w1/variables":        {{"strings", M{"wv": "2"}}, {"int", M{"wv": 2}}},
		"/variables":                    {{"strings", M{"gv": "x", "gw": "y"}}, {"int", M{"gv": 5}}, {"float", M{"gv": 1.5}}, {"bool", M{"gv": true}}},
		"/debug":                        {{"true", true}, {"false", false}},
		"/summary":                      {{"true", true}, {"false", false}},
		"/dryrun":                       {{"true", true}, {"false", false}},
		"/output":                       {{"raw", "raw"}, {"prefixed", "prefixed"}},
		"/import":                       {{"list1", L{"inc/a.yaml"}}, {"list2", L{"inc/a.yaml", "inc/b.yaml"}}, {"empty", L{}}, {"shared-lists-yaml", L{"inc/shared.yaml"}}, {"shared-lists-json", L{"inc/shared.json"}}, {"shared-lists-toml", L{"inc/shared.toml"}}, {"chain-yaml-yaml", L{"inc/mid-yaml-yaml.yaml"}}, {"chain-yaml-json", L{"inc/mid-yaml-json.yaml"}}, {"chain-yaml-toml", L{"inc/mid-yaml-toml.yaml"}}, {"chain-json-yaml", L{"inc/mid-json-yaml.json"}}, {"chain-json-json", L{"inc/mid-json-json.json"}}, {"chain-json-toml", L{"inc/mid-json-toml.json"}}, {"chain-toml-yaml", L{"inc/mid-toml-yaml.toml"}}, {"chain-toml-json", L{"inc/mid-toml-json.toml"}}, {"chain-toml-toml", L{"inc/mid-toml-toml.toml"}}},
	}
	return v
}

func parsePath(p string) path {
	var out path
	for _, s := range strings.Split(strings.TrimPrefix(p, "/"), "/") {
		var n int
		if _, err := fmt.Sscanf(s, "%d", &n); err == nil && fmt.Sprint(n) == s {
			out = append(out, n)
		} else {
			out = append(out, s)
		}
	}
	return out
}

func (c fmtCase) tree() interface{} {
	var t interface{} = fmtBase()
	vs := fmtVariations()
	for _, s := range c.Sets {
		for _, sh := range vs[s.Path] {
			if sh.name == s.Shape {
				t = setAt(t, parsePath(s.Path), sh.val, "replace")
			}
		}
	}
	return t
}

func dumpContainer(c variables.Container) string {
	if c == nil {
		return "<nil>"
	}
	var ks []string
	for k, v := range c.Map() {
		ks = append(ks, fmt.Sprintf("%s=%v", k, v))
	}
	sort.Strings(ks)
	return "{" + strings.Join(ks, ",") + "}"
}

// dumpConfig: canonical, format independent dump of everything the loader built.
func dumpConfig(cfg *config.Config, dir string) string {
	var b strings.Builder
	fmt.Fprintf(&b, "debug=%v dryrun=%v summary=%v output=%q vars=%s import=%v\n", cfg.Debug, cfg.DryRun, cfg.Summary, cfg.Output, dumpContainer(cfg.Variables), cfg.Import)
	var ks []string
	for k := range cfg.Tasks {
		ks = append(ks, k)
	}
	sort.Strings(ks)
	for _, k := range ks {
		t := cfg.Tasks[k]
		to := "<nil>"
		if t.Timeout != nil {
			to = t.Timeout.String()
		}
		fmt.Fprintf(&b, "task %s: name=%q desc=%q cond=%q cmds=%q before=%q after=%q ctx=%q variations=%v dir=%q timeout=%s allow=%v interactive=%v export=%q env=%s vars=%s\n",
			k, t.Name, t.Description, t.Condition, t.Commands, t.Before, t.After, t.Context, t.Variations, t.Dir, to, t.AllowFailure, t.Interactive, t.ExportAs, dumpContainer(t.Env), dumpContainer(t.Variables))
	}
	ks = nil
	for k := range cfg.Contexts {
		ks = append(ks, k)
	}
	sort.Strings(ks)
	for _, k := range ks {
		c := cfg.Contexts[k]
		up, down, before, after := runner.VerifHooks(c)
		ex := "<nil>"
		if c.Executable != nil {
			ex = fmt.Sprintf("%q %q", c.Executable.Bin, c.Executable.Args)
		}
		fmt.Fprintf(&b, "context %s: dir=%q env=%s vars=%s quote=%q exec=%s up=%q down=%q before=%q after=%q\n", k, c.Dir, dumpContainer(c.Env), dumpContainer(c.Variables), c.Quote, ex, up, down, before, after)
	}
	ks = nil
	for k := range cfg.Pipelines {
		ks = append(ks, k)
	}
	sort.Strings(ks)
	for _, k := range ks {
		g := cfg.Pipelines[k]
		var ns []string
		for n := range g.Nodes() {
			ns = append(ns, n)
		}
		sort.Strings(ns)
		for _, n := range ns {
			s, _ := g.Node(n)
			tn, pn := "", ""
			if s.Task != nil {
				tn = s.Task.Name
			}
			if s.Pipeline != nil {
				pn = fmt.Sprint(len(s.Pipeline.Nodes()))
			}
			deps := append([]string{}, g.To(n)...)
			sort.Strings(deps)
			fmt.Fprintf(&b, "pipeline %s stage %s: task=%q pipeline-size=%s cond=%q deps=%v declared=%v dir=%q allow=%v env=%s vars=%s\n", k, n, tn, pn, s.Condition, deps, s.DependsOn, s.Dir, s.AllowFailure, dumpContainer(s.Env), dumpContainer(s.Variables))
		}
	}
	ks = nil
	for k := range cfg.Watchers {
		ks = append(ks, k)
	}
	sort.Strings(ks)
	for _, k := range ks {
		p, e, t := watch.VerifDump(cfg.Watchers[k])
		sort.Strings(p)
		fmt.Fprintf(&b, "watcher %s: paths=%v events=%v task=%q\n", k, p, e, t)
	}
	return strings.ReplaceAll(b.String(), dir, "<DIR>")
}

var tsRe = regexp.MustCompile(`\d{4}-\d\d-\d\d \d\d:\d\d:\d\d|\d+(\.\d+)?(ns|µs|ms|s)\b|cfg\.(yaml|json|toml)`)

// addrRe: machine addresses, goroutine numbers and code offsets of a Go crash report (when a run crashes,
// it must crash alike from all three files; where in memory is not part of the result)
var addrRe = regexp.MustCompile(`0x[0-9a-f]+|goroutine \d+|\+0x[0-9a-f]+|in goroutine \d+`)

func normalizeOut(s, dir string) string {
	s = strings.ReplaceAll(s, dir, "<DIR>")
	s = addrRe.ReplaceAllString(s, "<ADDR>")
	return tsRe.ReplaceAllString(s, "<T>")
}

func c16One(x *ctx, c fmtCase) bool {
	tree := c.tree()
	type one struct {
		ext  string
		dump string
		err  string
		outs map[string]string
	}
	var got []one
	aux := map[string]string{"inc/a.yaml": "tasks:\n  inca:\n    command: echo a\n", "inc/b.yaml": "tasks:\n  incb:\n    command: echo b\n", "t1.env": "EF=1\n",
		"inc/shared.yaml": "tasks:\n  t1:\n    variations:\n      - V: fromshared\npipelines:\n  p1:\n    - task: t1\n      name: extra\n      depends_on: [s1]\n",
		"inc/shared.json": "{\"tasks\": {\"t1\": {\"variations\": [{\"V\": \"fromshared\"}]}}, \"pipelines\": {\"p1\": [{\"task\": \"t1\", \"name\": \"extra\", \"depends_on\": [\"s1\"]}]}}",
		"inc/shared.toml": "[[tasks.t1.variations]]\nV = \"fromshared\"\n\n[[pipelines.p1]]\ntask = \"t1\"\nname = \"extra\"\ndepends_on = [\"s1\"]\n", "wa.txt": "", "wx.txt": "", "wb.log": "", "wy.md": "", "wc.md": ""}
	// import chains main -> mid -> leaf in every combination of formats; mid and leaf each add a task, so the
	// tree handed up by mid is one that already contains an import of another format
	leafBody := map[string]string{"yaml": "tasks:\n  leaft:\n    command: echo leaf\n", "json": "{\"tasks\": {\"leaft\": {\"command\": \"echo leaf\"}}}", "toml": "[tasks.leaft]\ncommand = \"echo leaf\"\n"}
	for _, m := range []string{"yaml", "json", "toml"} {
		for _, l := range []string{"yaml", "json", "toml"} {
			leaf := fmt.Sprintf("leaf-%s-%s.%s", m, l, l)
			aux["inc/"+leaf] = leafBody[l]
			mid := map[string]string{
				"yaml": "import: [" + leaf + "]\ntasks:\n  midt:\n    command: echo mid\n",
				"json": "{\"import\": [\"" + leaf + "\"], \"tasks\": {\"midt\": {\"command\": \"echo mid\"}}}",
				"toml": "import = [\"" + leaf + "\"]\n\n[tasks.midt]\ncommand = \"echo mid\"\n",
			}[m]
			aux[fmt.Sprintf("inc/mid-%s-%s.%s", m, l, m)] = mid
		}
	}
	debugDoc := false
	for _, st := range c.Sets {
		if st.Path == "/debug" && st.Shape == "true" {
			debugDoc = true
		}
	}
	useBin := os.Getenv("VERIF_TASKCTL") != "" && (*common_Tier() == "thorough" || len(c.Sets) == 0 || x.idx%5 == 0)
	for _, e := range emitters {
		b, err := e.emit(tree)
		if err != nil {
			x.res.Extra["inexpressible_"+e.ext]++
			return false // a shape that one format cannot express is skipped for all three
		}
		// emitter validation: the text must round-trip through the format's own decoder
		dir := newCaseDir(x.root)
		files := map[string]string{"cfg." + e.ext: string(b)}
		for k, v := range aux {
			files[k] = v
		}
		r := loadInProcess(dir, LoadCase{Files: files, Main: "cfg." + e.ext, Note: c.String()})
		o := one{ext: e.ext, outs: map[string]string{}}
		if exhausted(r) {
			os.RemoveAll(dir)
			return false
		}
		switch {
		case r.hang:
			o.err = "hang"
		case r.panic != "":
			o.err = "panic: " + r.panic
		case r.err != nil:
			o.err = "error: " + normalizeOut(r.err.Error(), dir)
		default:
			o.dump = dumpConfig(r.cfg, dir)
		}
		r.release()
		if useBin && r.err == nil && r.panic == "" {
			cmds := [][]string{{"list"}, {"graph", "p1"}, {"graph", "p2"}}
			for _, t := range r.tasks {
				cmds = append(cmds, []string{"show", t})
				cmds = append(cmds, []string{"--output", "raw", t})
			}
			for _, p := range r.pipes {
				cmds = append(cmds, []string{"--output", "raw", p})
			}
			for _, cmd := range cmds {
				os.Remove(dir + "/trace")
				br := runBinary(dir, append([]string{"-c", "cfg." + e.ext}, cmd...)...)
				x.res.Extra["binary_runs"]++
				if br.exhausted {
					os.RemoveAll(dir)
					return false // not judged
				}
				tr, _ := os.ReadFile(dir + "/trace")
				out := br.out
				if cmd[0] == "graph" && br.code == 0 {
					out = canonDot(out)
				} else if cmd[0] == "--output" {
					// a run: stages of a pipeline may write at the same time and a line and its terminator are
					// separate writes, so two runs of the SAME file differ in how lines interleave (seen in the
					// thorough tier under load: an empty line more or less). Compared: exit status, the trace
					// file and the multiset of bytes written - invariant under every interleaving of the writes.
					// With debug logging switched on by the document the number of log lines depends on timing:
					// exit status and trace only.
					bs := []byte(normalizeOut(out, dir))
					sort.Slice(bs, func(i, j int) bool { return bs[i] < bs[j] })
					out = string(bs)
					if debugDoc {
						out = ""
					}
				} else if cmd[0] != "show" {
					ls := strings.Split(out, "\n")
					sort.Strings(ls) // map iteration order / summary order are not part of the comparison
					out = strings.Join(ls, "\n")
				}
				o.outs[strings.Join(cmd, " ")] = fmt.Sprintf("exit=%d trace=%q\n%s", br.code, string(tr), normalizeOut(out, dir))
			}
		}
		os.RemoveAll(dir)
		got = append(got, o)
	}
	x.res.Evaluations++
	x.kinds[c.String()] = true
	for i := 1; i < len(got); i++ {
		a, b := got[0], got[i]
		if kindOf(a.err) != kindOf(b.err) {
			x.violation("load-outcome-differs", c.String(), fmt.Sprintf("%s: %s loads with %q, %s with %q", c, a.ext, a.err, b.ext, b.err), c, false)
			return true
		}
		if a.dump != b.dump {
			x.violation("config-differs", c.String(), fmt.Sprintf("%s: loaded configuration differs between %s and %s: %s", c, a.ext, b.ext, firstDiff(a.dump, b.dump)), c, false)
			return true
		}
		var ks []string
		for k := range a.outs {
			ks = append(ks, k)
		}
		sort.Strings(ks)
		for _, k := range ks {
			if a.outs[k] != b.outs[k] {
				x.violation("output-differs", c.String()+"|"+k, fmt.Sprintf("%s: `taskctl %s` differs between %s and %s: %s", c, k, a.ext, b.ext, firstDiff(a.outs[k], b.outs[k])), c, true)
				return true
			}
		}
	}
	return false
}

func firstDiff(a, b string) string {
	la, lb := strings.Split(a, "\n"), strings.Split(b, "\n")
	for i := 0; i < len(la) || i < len(lb); i++ {
		x, y := "", ""
		if i < len(la) {
			x = la[i]
		}
		if i < len(lb) {
			y = lb[i]
		}
		if x != y {
			return fmt.Sprintf("%q vs %q", truncate(x, 300), truncate(y, 300))
		}
	}
	return ""
}

func unitC16(x *ctx) {
	vs := fmtVariations()
	var ps []string
	for p := range vs {
		ps = append(ps, p)
	}
	sort.Strings(ps)
	do := func(c fmtCase) {
		x.idx++
		if x.stop || !mine(x.idx) {
			return
		}
		if x.res.Evaluations%13 == 0 {
			x.res.AddSample(c.String())
		}
		c16One(x, c)
	}
	section := func(p string) string {
		parts := strings.Split(p, "/")
		if len(parts) > 3 {
			parts = parts[:3]
		}
		return strings.Join(parts, "/")
	}
	switch *common_Unit() {
	case "c16-single": // one key varied at a time
		do(fmtCase{})
		for _, p := range ps {
			for _, sh := range vs[p] {
				do(fmtCase{Sets: []fmtSet{{p, sh.name}}})
			}
		}
	case "c16-pairs": // all pairs of keys within a section
		for i, p := range ps {
			for _, q := range ps[i+1:] {
				if section(p) != section(q) {
					continue
				}
				for _, s1 := range vs[p] {
					for _, s2 := range vs[q] {
						do(fmtCase{Sets: []fmtSet{{p, s1.name}, {q, s2.name}}})
						if expired() {
							x.res.Exhaustive, x.res.Capped = false, "internal deadline"
							return
						}
					}
				}
			}
		}
	default:
		fmt.Fprintln(os.Stderr, "unknown unit")
		os.Exit(2)
	}
}

var dotNodeRe = regexp.MustCompile(`n(\d+)\[label="([^"]+)"\]`)
var dotEdgeRe = regexp.MustCompile(`n(\d+)->n(\d+)`)
var dotClusterRe = regexp.MustCompile(`label="([^"]+)";`)

// canonDot: node numbering in DOT output follows map iteration order; compare labels and labelled edges.
func canonDot(out string) string {
	label := map[string]string{}
	var items []string
	for _, m := range dotNodeRe.FindAllStringSubmatch(out, -1) {
		label[m[1]] = m[2]
		items = append(items, "node "+m[2])
	}
	for _, m := range dotEdgeRe.FindAllStringSubmatch(out, -1) {
		items = append(items, "edge "+label[m[1]]+"->"+label[m[2]])
	}
	for _, m := range dotClusterRe.FindAllStringSubmatch(out, -1) {
		items = append(items, "cluster "+m[1])
	}
	sort.Strings(items)
	return strings.Join(items, "\n")
}
