//go:build verif

package main

import (
	"bytes"
	"encoding/json"
	"fmt"
	"sort"
	"strings"

	toml "github.com/pelletier/go-toml"
	yaml "gopkg.in/yaml.v2"
)

type M = map[string]interface{}
type L = []interface{}

// baseDocs: between them they use every key of configDefinition, taskDefinition, stageDefinition,
// contextDefinition and watcherDefinition.
func baseDocs() map[string]M {
	a := M{
		"import":    L{"inc/a.yaml"},
		"debug":     false,
		"output":    "raw",
		"variables": M{"gv": "x"},
		"contexts": M{
			"local": M{"dir": ".", "up": L{"true"}, "down": L{"true"}, "before": L{"true"}, "after": "true",
				"env": M{"CE": "1"}, "variables": M{"cv": "1"}, "executable": M{"bin": "/bin/sh", "args": L{"-c"}}, "quote": "'"},
		},
		"tasks": M{
			"t1": M{"name": "t1", "description": "d", "condition": "true", "command": L{"echo a", "echo b"}, "after": L{"true"}, "before": "true",
				"context": "local", "variations": L{M{"V": "1"}, M{"V": "2"}}, "dir": ".", "timeout": "10s", "allow_failure": true,
				"interactive": false, "exportas": "OUT", "env": M{"E": "1"}, "env_file": "t1.env", "variables": M{"tv": "1"}},
			"t2": M{"command": "echo c"},
		},
		"pipelines": M{
			"p1": L{
				M{"task": "t1", "name": "s1", "condition": "true", "allow_failure": true, "env": M{"SE": "1"}, "variables": M{"sv": "1"}, "dir": "."},
				M{"task": "t2", "depends_on": L{"s1"}},
				M{"pipeline": "p2", "name": "s3", "depends_on": "s1"},
			},
			"p2": L{M{"task": "t2"}},
		},
		"watchers": M{
			"w1": M{"events": L{"create", "write"}, "watch": L{"*.go"}, "exclude": L{"x*"}, "task": "t2", "variables": M{"wv": "1"}},
		},
	}
	b := M{
		"tasks": M{
			"only": M{"command": L{"echo 1"}, "timeout": "1500ms", "env": M{"A": "b"}},
		},
		"pipelines": M{
			"p": L{M{"task": "only"}, M{"task": "only", "name": "again", "depends_on": L{"only"}}},
		},
		"summary": true,
		"dryrun":  false,
	}
	return map[string]M{"A": a, "B": b}
}

// ---- tree utilities ----

func clone(v interface{}) interface{} {
	switch x := v.(type) {
	case M:
		o := M{}
		for k, e := range x {
			o[k] = clone(e)
		}
		return o
	case L:
		o := make(L, len(x))
		for i, e := range x {
			o[i] = clone(e)
		}
		return o
	}
	return v
}

type path []interface{} // string keys and int indices

func (p path) String() string {
	var parts []string
	for _, e := range p {
		parts = append(parts, fmt.Sprint(e))
	}
	return "/" + strings.Join(parts, "/")
}

// paths returns every node of the tree (pre-order), root excluded.
func paths(v interface{}, prefix path) []path {
	var out []path
	switch x := v.(type) {
	case M:
		var ks []string
		for k := range x {
			ks = append(ks, k)
		}
		sort.Strings(ks)
		for _, k := range ks {
			p := append(append(path{}, prefix...), k)
			out = append(out, p)
			out = append(out, paths(x[k], p)...)
		}
	case L:
		for i := range x {
			p := append(append(path{}, prefix...), i)
			out = append(out, p)
			out = append(out, paths(x[i], p)...)
		}
	}
	return out
}

// edit applies f to the parent container and key of path p in (a clone of) root.
func setAt(root interface{}, p path, val interface{}, op string) interface{} {
	root = clone(root)
	var cur interface{} = root
	for i := 0; i < len(p)-1; i++ {
		switch k := p[i].(type) {
		case string:
			cur = cur.(M)[k]
		case int:
			cur = cur.(L)[k]
		}
	}
	last := p[len(p)-1]
	switch k := last.(type) {
	case string:
		m := cur.(M)
		switch op {
		case "replace":
			m[k] = val
		case "delete":
			delete(m, k)
		case "rename":
			m["unknown_key"] = m[k]
			delete(m, k)
		}
	case int:
		l := cur.(L)
		switch op {
		case "replace":
			l[k] = val
		case "delete", "rename":
			// deleting a list element: rebuild parent (only reachable through its own parent)
			l[k] = nil
		}
	}
	return root
}

// Deviation is one departure from a well-formed document.
type Deviation struct {
	Path string `json:"path"`
	Op   string `json:"op"`
	Val  string `json:"val,omitempty"`
}

var replacements = []struct {
	name string
	val  interface{}
}{
	{"null", nil}, {"empty-string", ""}, {"string", "s"}, {"int", 7}, {"bool", true}, {"float", 1.5},
	{"empty-list", L{}}, {"list", L{"a", "b"}}, {"empty-map", M{}}, {"map-unknown", M{"unknown": 1}}, {"list-of-maps", L{M{"k": "v"}}}, {"list-null", L{nil}},
}

// ---- emitters ----

func emitYAML(v interface{}) ([]byte, error) { return yaml.Marshal(v) }

func emitJSON(v interface{}) ([]byte, error) { return json.MarshalIndent(v, "", " ") }

func tomlable(v interface{}) bool {
	switch x := v.(type) {
	case nil:
		return false
	case M:
		for _, e := range x {
			if !tomlable(e) {
				return false
			}
		}
	case L:
		kind := ""
		for _, e := range x {
			if !tomlable(e) {
				return false
			}
			k := fmt.Sprintf("%T", e)
			if kind != "" && k != kind {
				return false
			}
			kind = k
		}
	}
	return true
}

func emitTOML(v interface{}) (out []byte, err error) {
	defer func() {
		if r := recover(); r != nil {
			err = fmt.Errorf("toml emitter: %v", r)
		}
	}()
	if !tomlable(v) {
		return nil, fmt.Errorf("not expressible in TOML")
	}
	m, ok := v.(M)
	if !ok {
		return nil, fmt.Errorf("top level is not a table")
	}
	t, err := toml.TreeFromMap(normalizeForTOML(m).(map[string]interface{}))
	if err != nil {
		return nil, err
	}
	var buf bytes.Buffer
	if _, err := t.WriteTo(&buf); err != nil {
		return nil, err
	}
	return buf.Bytes(), nil
}

func normalizeForTOML(v interface{}) interface{} {
	switch x := v.(type) {
	case M:
		o := map[string]interface{}{}
		for k, e := range x {
			o[k] = normalizeForTOML(e)
		}
		return o
	case L:
		o := make([]interface{}, len(x))
		for i, e := range x {
			o[i] = normalizeForTOML(e)
		}
		return o
	case int:
		return int64(x)
	}
	return v
}
