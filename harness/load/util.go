//go:build verif

package main

import (
	"sort"

	"github.com/taskctl/taskctl/internal/vh/common"
)

func mine(idx int64) bool    { return common.Mine(idx) }
func expired() bool          { return common.Expired() }
func common_Unit() *string   { return common.Unit }
func common_Tier() *string   { return common.Tier }
func sortStrings(s []string) { sort.Strings(s) }
