//go:build verif

package main

import (
	"encoding/json"
	"fmt"
	"os"
	"strings"
)

type jsonRaw json.RawMessage

func (j *jsonRaw) UnmarshalJSON(b []byte) error { *j = append((*j)[:0], b...); return nil }
func (j jsonRaw) into(v interface{}) {
	if err := json.Unmarshal(j, v); err != nil {
		fmt.Fprintln(os.Stderr, "bad replay file:", err)
		os.Exit(2)
	}
}

var auxFiles = map[string]string{
	"inc/a.yaml": "tasks:\n  inc:\n    command: echo inc\n",
	"t1.env":     "EF=1\nEG=2\n",
}

// c15One loads one case in-process and (if it loads, or always for withFailing) through the binary.
func c15One(x *ctx, c LoadCase, useBinary, binaryOnFail bool) bool {
	dir := newCaseDir(x.root)
	defer os.RemoveAll(dir)
	r := loadInProcess(dir, c)
	r.release()
	if exhausted(r) {
		return false
	}
	x.res.Evaluations++
	switch {
	case r.hang:
		x.violation("hang", "load:"+c.Note, "Loader.Load did not return within 30s: "+c.Note, c, false)
		return true
	case r.panic != "":
		x.violation("panic", r.site+":"+msgClass(r.panic), fmt.Sprintf("Loader.Load panicked in %s: %s (input: %s)", r.site, r.panic, c.Note), c, false)
		return true
	}
	outcome := "error"
	if r.err == nil {
		outcome = "loaded"
	}
	x.kinds[outcome+":"+kindOf(c.Note)] = true
	if !useBinary || os.Getenv("VERIF_TASKCTL") == "" {
		return false
	}
	bad := false
	check := func(args ...string) {
		b := runBinary(dir, args...)
		x.res.Extra["binary_runs"]++
		if d := crashed(b); d != "" {
			site := ""
			if i := strings.Index(b.out, "github.com/taskctl/taskctl/"); i >= 0 {
				site = strings.SplitN(b.out[i+len("github.com/taskctl/taskctl/"):], "(", 2)[0]
			}
			x.violation("binary-crash", args[len(args)-1-boolInt(len(args) > 3)]+":"+site, fmt.Sprintf("taskctl %s %s (input: %s)", strings.Join(args[2:], " "), d, c.Note), c, true)
			bad = true
		}
	}
	main := c.Main
	// the same input found by default discovery (tasks.yaml in the invocation directory or above,
	// no -c flag): a different path through the CLI's Before hook
	if strings.HasSuffix(main, ".yaml") && binaryOnFail {
		if b, err := os.ReadFile(dir + "/" + main); err == nil {
			os.WriteFile(dir+"/tasks.yaml", b, 0o644)
			os.MkdirAll(dir+"/subdir", 0o755)
			for _, wd := range []string{dir, dir + "/subdir"} {
				br := runBinary(wd, "list")
				x.res.Extra["binary_runs"]++
				if d := crashed(br); d != "" {
					site := ""
					if i := strings.Index(br.out, "github.com/taskctl/taskctl/"); i >= 0 {
						site = strings.SplitN(br.out[i+len("github.com/taskctl/taskctl/"):], "(", 2)[0]
					}
					x.violation("binary-crash", "list-by-default-discovery:"+site, fmt.Sprintf("taskctl list (configuration found by default discovery) %s (input: %s)", d, c.Note), c, true)
					bad = true
				}
			}
			os.Remove(dir + "/tasks.yaml")
		}
	}
	if r.err != nil {
		if binaryOnFail {
			check("-c", main, "list")
		}
		return bad
	}
	check("-c", main, "list")
	check("-c", main, "validate", main)
	for _, t := range r.tasks {
		check("-c", main, "show", t)
	}
	for _, p := range r.pipes {
		if strings.Contains(c.Note, "deep-shared-nesting") {
			// `graph` draws one cluster per INCLUSION (the expanded plan): for this document that is 2^40 clusters by
			// design of the drawing, not a defect of loading; the scale document is about loading, list, show, validate
			continue
		}
		check("-c", main, "graph", p)
	}
	return bad
}

func boolInt(b bool) int {
	if b {
		return 1
	}
	return 0
}

func kindOf(note string) string {
	if i := strings.Index(note, " "); i > 0 {
		return note[:i]
	}
	return note
}

func withAux(files map[string]string) map[string]string {
	out := map[string]string{}
	for k, v := range auxFiles {
		out[k] = v
	}
	for k, v := range files {
		out[k] = v
	}
	return out
}

type emitter struct {
	ext  string
	emit func(interface{}) ([]byte, error)
}

var emitters = []emitter{{"yaml", emitYAML}, {"json", emitJSON}, {"toml", emitTOML}}

func unitC15(x *ctx) {
	docs := baseDocs()
	names := []string{"A", "B"}
	do := func(c LoadCase, useBinary, binaryOnFail bool) {
		x.idx++
		if x.stop || !mine(x.idx) {
			return
		}
		if x.res.Evaluations%499 == 0 {
			x.res.AddSample(map[string]interface{}{"note": c.Note, "main": c.Main, "content": truncate(c.Files[c.Main], 300)})
		}
		c15One(x, c, useBinary, binaryOnFail)
	}
	emitAll := func(tree interface{}, note string, useBinary bool, onlyYAMLBinary bool) {
		for _, e := range emitters {
			b, err := e.emit(tree)
			if err != nil {
				x.res.Extra["inexpressible_"+e.ext]++
				continue
			}
			main := "cfg." + e.ext
			do(LoadCase{Files: withAux(map[string]string{main: string(b)}), Main: main, Note: note + " [" + e.ext + "]"}, useBinary && (!onlyYAMLBinary || e.ext == "yaml"), e.ext == "yaml")
		}
	}
	switch *common_Unit() {
	case "c15-base": // 0 deviations
		for _, n := range names {
			emitAll(docs[n], "base "+n, true, false)
		}
		// pipelines that include each other: an entry pipeline in front of a two-pipeline cycle and in front
		// of a self-including pipeline, under every assignment of three names to the roles (whatever order
		// the loader visits them in, the commands must end with an error or a result)
		pn := []string{"pa", "pb", "pc"}
		for _, perm := range [][3]int{{0, 1, 2}, {0, 2, 1}, {1, 0, 2}, {1, 2, 0}, {2, 0, 1}, {2, 1, 0}} {
			entry, c1, c2 := pn[perm[0]], pn[perm[1]], pn[perm[2]]
			cyc := M{"tasks": M{"t": M{"command": "echo t"}}, "pipelines": M{
				entry: L{M{"pipeline": c1}},
				c1:    L{M{"task": "t"}, M{"pipeline": c2, "depends_on": L{"t"}}},
				c2:    L{M{"pipeline": c1}},
			}}
			emitAll(cyc, fmt.Sprintf("base inclusion-cycle entry=%s cycle=%s,%s", entry, c1, c2), true, false)
			self := M{"tasks": M{"t": M{"command": "echo t"}}, "pipelines": M{
				entry: L{M{"pipeline": c1}},
				c1:    L{M{"task": "t"}, M{"pipeline": c1, "name": "again"}},
				c2:    L{M{"task": "t"}},
			}}
			emitAll(self, fmt.Sprintf("base self-inclusion entry=%s self=%s", entry, c1), true, false)
		}
	case "c15-single": // every single deviation at every node of the document tree, three formats
		for _, n := range names {
			for _, p := range paths(docs[n], nil) {
				for _, r := range replacements {
					emitAll(setAt(docs[n], p, r.val, "replace"), fmt.Sprintf("single doc=%s path=%s replace=%s", n, p, r.name), true, true)
				}
				emitAll(setAt(docs[n], p, nil, "delete"), fmt.Sprintf("single doc=%s path=%s delete", n, p), true, true)
				emitAll(setAt(docs[n], p, nil, "rename"), fmt.Sprintf("single doc=%s path=%s rename", n, p), true, true)
			}
		}
	case "c15-pairs": // every pair of deviations (thorough), in-process only
		for _, n := range names {
			ps := paths(docs[n], nil)
			for i, p := range ps {
				for _, r1 := range replacements {
					t1 := setAt(docs[n], p, r1.val, "replace")
					for _, q := range ps[i+1:] {
						if strings.HasPrefix(q.String()+"/", p.String()+"/") {
							continue // q lies inside the replaced subtree
						}
						for _, r2 := range replacements {
							emitAll(setAt(t1, q, r2.val, "replace"), fmt.Sprintf("pair doc=%s %s=%s %s=%s", n, p, r1.name, q, r2.name), false, false)
							if x.stop || expired() {
								return
							}
						}
					}
				}
			}
		}
	case "c15-bytes": // truncation at every byte offset and one invalid byte at every offset
		for _, n := range names {
			for _, e := range emitters {
				b, err := e.emit(docs[n])
				if err != nil {
					continue
				}
				main := "cfg." + e.ext
				for off := 0; off <= len(b); off++ {
					do(LoadCase{Files: withAux(map[string]string{main: string(b[:off])}), Main: main, Note: fmt.Sprintf("truncate doc=%s off=%d [%s]", n, off, e.ext)}, off%7 == 0, false)
					if off < len(b) {
						m := append(append(append([]byte{}, b[:off]...), 0xff), b[off+1:]...)
						do(LoadCase{Files: withAux(map[string]string{main: string(m)}), Main: main, Note: fmt.Sprintf("badbyte doc=%s off=%d [%s]", n, off, e.ext)}, off%7 == 0, false)
					}
				}
			}
		}
	case "c15-envfile": // every sequence of <=3 (thorough 4) lines over the alphabet; missing file; directory
		alphabet := []string{"", "A", "A=", "=B", "A=B", "A=B=C", "# c", " ", "\xff", "A B=c d"}
		maxLen := 3
		if *common_Tier() == "thorough" {
			maxLen = 4
		}
		base := func(envfile string) string {
			return "tasks:\n  t:\n    command: echo 1\n    env_file: " + envfile + "\n"
		}
		var rec func(lines []string)
		rec = func(lines []string) {
			content := strings.Join(lines, "\n")
			for _, final := range []string{"", "\n"} {
				if len(lines) == 0 && final == "\n" {
					continue
				}
				do(LoadCase{Files: map[string]string{"cfg.yaml": base("e.env"), "e.env": content + final}, Main: "cfg.yaml", Note: fmt.Sprintf("envfile lines=%q final-newline=%v", lines, final != "")}, len(lines) <= 1, true)
			}
			if len(lines) == maxLen {
				return
			}
			for _, a := range alphabet {
				rec(append(append([]string{}, lines...), a))
			}
		}
		rec(nil)
		do(LoadCase{Files: map[string]string{"cfg.yaml": base("missing.env")}, Main: "cfg.yaml", Note: "envfile missing"}, true, true)
		do(LoadCase{Files: map[string]string{"cfg.yaml": base("d.env"), "d.env": "<DIR>"}, Main: "cfg.yaml", Note: "envfile is-a-directory"}, true, true)
		do(LoadCase{Files: map[string]string{"cfg.yaml": base("/nonexistent/abs.env")}, Main: "cfg.yaml", Note: "envfile absolute-missing"}, true, true)
	case "c15-yamlonly": // anchors, merge keys, tabs, duplicate keys, documents that are not maps, mixed-format imports
		texts := map[string]string{
			"anchor-alias":                 "x: &a\n  command: echo 1\ntasks:\n  t1: *a\n  t2: *a\n",
			"merge-key":                    "base: &b\n  command: echo 1\ntasks:\n  t1:\n    <<: *b\n    dir: .\n",
			"merge-key-list":               "tasks:\n  t1:\n    <<: [1, 2]\n",
			"alias-cycle":                  "tasks: &t\n  t1: *t\n",
			"tab-indent":                   "tasks:\n\tt1:\n\t\tcommand: echo 1\n",
			"duplicate-key":                "tasks:\n  t1:\n    command: echo 1\n  t1:\n    command: echo 2\n",
			"duplicate-top":                "tasks:\n  t1:\n    command: echo 1\ntasks:\n  t2:\n    command: echo 2\n",
			"top-scalar":                   "just a string\n",
			"top-list":                     "- a\n- b\n",
			"top-null":                     "~\n",
			"empty":                        "",
			"only-comment":                 "# nothing\n",
			"two-documents":                "tasks:\n  t1:\n    command: echo 1\n---\ntasks:\n  t2:\n    command: echo 2\n",
			"int-keys":                     "tasks:\n  1:\n    command: echo 1\n  2.5:\n    command: echo 2\n",
			"bool-key":                     "tasks:\n  true:\n    command: echo 1\n",
			"null-key":                     "tasks:\n  ~:\n    command: echo 1\n",
			"nested-map-key":               "tasks:\n  ? {a: b}\n  : {command: echo 1}\n",
			"binary-tag":                   "tasks:\n  t1:\n    command: !!binary aGVsbG8=\n",
			"huge-int":                     "tasks:\n  t1:\n    command: echo 1\n    timeout: 99999999999999999999999\n",
			"neg-timeout":                  "tasks:\n  t1:\n    command: echo 1\n    timeout: -5s\n",
			"bad-duration":                 "tasks:\n  t1:\n    command: echo 1\n    timeout: soon\n",
			"variations-scalar":            "tasks:\n  t1:\n    command: echo 1\n    variations: [1, 2]\n",
			"import-self":                  "import: [cfg.yaml]\ntasks:\n  t1:\n    command: echo 1\n",
			"import-string":                "import: inc/a.yaml\n",
			"import-int-list":              "import: [1, 2]\n",
			"import-null-list":             "import: [~]\n",
			"import-map":                   "import: {a: b}\n",
			"import-dir":                   "import: [inc]\n",
			"import-missing":               "import: [nope.yaml]\n",
			"import-json":                  "import: [inc/j.json]\ntasks:\n  t1:\n    command: echo 1\n    env: {A: b}\n",
			"import-toml":                  "import: [inc/t.toml]\ntasks:\n  t1:\n    command: echo 1\n    env: {A: b}\n",
			"import-unsupported":           "import: [inc/x.txt]\n",
			"watcher-bad-glob":             "tasks:\n  t:\n    command: echo\nwatchers:\n  w:\n    watch: ['[']\n    task: t\n",
			"watcher-no-task":              "watchers:\n  w:\n    watch: ['*']\n",
			"stage-dir-pipeline":           "tasks:\n  t:\n    command: echo\npipelines:\n  p:\n    - pipeline: q\n      dir: /tmp\n  q:\n    - task: t\n",
			"context-null":                 "contexts:\n  c: ~\ntasks:\n  t:\n    command: echo\n    context: c\n",
			"pipeline-null":                "pipelines:\n  p: ~\n",
			"pipeline-stage-null":          "pipelines:\n  p:\n    - ~\n",
			"task-null":                    "tasks:\n  t: ~\n",
			"pipeline-self":                "tasks:\n  t:\n    command: echo\npipelines:\n  a:\n    - task: t\n    - pipeline: a\n      name: again\n",
			"pipeline-loop":                "tasks:\n  t:\n    command: echo\npipelines:\n  a:\n    - pipeline: b\n  b:\n    - pipeline: a\n",
			"pipeline-loop-behind-entries": "tasks:\n  t:\n    command: echo\npipelines:\n  a:\n    - pipeline: b\n  b:\n    - pipeline: a\n  e00:\n    - pipeline: a\n  e01:\n    - pipeline: a\n  e02:\n    - pipeline: a\n  e03:\n    - pipeline: a\n  e04:\n    - pipeline: a\n  e05:\n    - pipeline: a\n  e06:\n    - pipeline: a\n  e07:\n    - pipeline: a\n  e08:\n    - pipeline: a\n  e09:\n    - pipeline: a\n  e10:\n    - pipeline: a\n  e11:\n    - pipeline: a\n",
			"pipeline-deep-nesting":        "tasks:\n  t:\n    command: echo\npipelines:\n  p1:\n    - pipeline: p2\n  p2:\n    - pipeline: p3\n  p3:\n    - pipeline: p4\n  p4:\n    - pipeline: p5\n  p5:\n    - task: t\n",
			"pipeline-diamond-nesting":     "tasks:\n  t:\n    command: echo\npipelines:\n  top:\n    - pipeline: l\n    - pipeline: r\n  l:\n    - pipeline: leaf\n  r:\n    - pipeline: leaf\n  leaf:\n    - task: t\n",
			"watcher-null":                 "watchers:\n  w: ~\n",
		}
		// scale: deep nesting where every level is included by two stages of the level above (2^depth inclusion
		// paths, 41 pipelines), a long chain of stages, many tasks: loading ends in bounded time
		{
			var b strings.Builder
			b.WriteString("tasks:\n  t:\n    command: echo\npipelines:\n")
			for i := 0; i < 40; i++ {
				fmt.Fprintf(&b, "  l%02d:\n    - pipeline: l%02d\n      name: one\n    - pipeline: l%02d\n      name: two\n      depends_on: [one]\n", i, i+1, i+1)
			}
			b.WriteString("  l40:\n    - task: t\n")
			texts["pipeline-deep-shared-nesting"] = b.String()
			b.Reset()
			b.WriteString("tasks:\n  t:\n    command: echo\npipelines:\n  long:\n    - task: t\n      name: s000\n")
			for i := 1; i < 200; i++ {
				fmt.Fprintf(&b, "    - task: t\n      name: s%03d\n      depends_on: [s%03d]\n", i, i-1)
			}
			texts["pipeline-200-stage-chain"] = b.String()
			b.Reset()
			b.WriteString("tasks:\n")
			for i := 0; i < 500; i++ {
				fmt.Fprintf(&b, "  t%03d:\n    command: echo %d\n", i, i)
			}
			texts["500-tasks"] = b.String()
		}
		extra := map[string]string{
			"inc/j.json": "{\"tasks\": {\"j\": {\"command\": \"echo j\", \"env\": {\"A\": \"b\"}}}}",
			"inc/t.toml": "[tasks.tt]\ncommand = \"echo t\"\n[tasks.tt.env]\nA = \"b\"\n",
			"inc/x.txt":  "hello",
		}
		var ks []string
		for k := range texts {
			ks = append(ks, k)
		}
		sortStrings(ks)
		for _, k := range ks {
			files := withAux(map[string]string{"cfg.yaml": texts[k]})
			for n, c := range extra {
				files[n] = c
			}
			do(LoadCase{Files: files, Main: "cfg.yaml", Note: "yamlonly " + k}, true, true)
		}
		// the same mixed-format imports from a JSON and a TOML root
		do(LoadCase{Files: withAux(map[string]string{"cfg.json": "{\"import\": [\"inc/a.yaml\"], \"tasks\": {\"t1\": {\"command\": \"echo 1\", \"env\": {\"A\": \"b\"}}}}"}), Main: "cfg.json", Note: "yamlonly json-imports-yaml"}, true, true)
		do(LoadCase{Files: withAux(map[string]string{"cfg.toml": "import = [\"inc/a.yaml\"]\n[tasks.t1]\ncommand = \"echo 1\"\n[tasks.t1.env]\nA = \"b\"\n"}), Main: "cfg.toml", Note: "yamlonly toml-imports-yaml"}, true, true)
		// global configuration variants
		for k, t := range map[string]string{"home-null": "~\n", "home-bad": "tasks: [1]\n", "home-trunc": "tasks:\n  t: {command: [", "home-ok": "tasks:\n  g:\n    command: echo g\n"} {
			do(LoadCase{Files: withAux(map[string]string{"cfg.yaml": "tasks:\n  t1:\n    command: echo 1\n"}), Home: map[string]string{".taskctl/config.yaml": t}, Main: "cfg.yaml", Note: "yamlonly " + k}, true, true)
		}
	default:
		fmt.Fprintln(os.Stderr, "unknown unit")
		os.Exit(2)
	}
}

func truncate(s string, n int) string {
	if len(s) > n {
		return s[:n] + "..."
	}
	return s
}

// msgClass: the panic message without addresses and indices.
func msgClass(m string) string {
	for _, cut := range []string{"0x", "[", ":"} {
		if i := strings.Index(m, cut); i > 0 {
			m = m[:i]
		}
	}
	m = strings.TrimSpace(m)
	if len(m) > 60 {
		m = m[:60]
	}
	return m
}
