// vinst rewrites copies of taskctl's packages so that every synchronisation operation goes through
// the vrt scheduler, and writes a `go build -overlay` file that substitutes the rewritten copies
// (and injects the vrt runtime and harness packages as virtual packages of the taskctl module).
// /repo itself is never modified. Exit status 2 = cannot instrument soundly (infrastructure
// failure, never a verdict).
package main

import (
	"bytes"
	"encoding/json"
	"flag"
	"fmt"
	"go/ast"
	"go/format"
	"go/parser"
	"go/token"
	"go/types"
	"os"
	"path/filepath"
	"sort"
	"strconv"
	"strings"

	"golang.org/x/tools/go/ast/astutil"
	"golang.org/x/tools/go/packages"
)

const modPath = "github.com/taskctl/taskctl"
const vrtPath = modPath + "/vrt"

type multi []string

func (m *multi) String() string     { return strings.Join(*m, ",") }
func (m *multi) Set(s string) error { *m = append(*m, s); return nil }

var (
	repo     = flag.String("repo", "/repo", "taskctl working tree")
	out      = flag.String("out", "", "output directory (outside /repo)")
	rtDir    = flag.String("rt", "/verif/rt/vrt", "vrt runtime sources")
	pkgsFlag = flag.String("pkgs", "pkg/scheduler,pkg/runner,pkg/executor,pkg/output,pkg/variables,pkg/task,pkg/utils,internal/watch,internal/config", "packages to instrument (relative to repo)")
	execShim = flag.String("execshim", "pkg/scheduler", "packages whose os/exec import is replaced by vexec")
	noInst   = flag.Bool("noinst", false, "do not rewrite packages (overlay only adds virtual packages)")
	logPts   = flag.Bool("logpoints", false, "every logging call (logrus) in an instrumented package is preceded by a scheduling point: a log call takes a lock and does I/O, it is a visible operation")
	extPkgs  = flag.String("extpkgs", "", "comma separated import paths of third-party packages to instrument as well (files in the module cache are replaced through the overlay)")
	virt     multi // srcdir=relative/virtual/dir
	inject   multi // srcfile=relative/dest/file (in-package test helpers)
	fieldsF  multi // pkg|Type.field  or pkg|var
	probesF  multi // pkg|recv.func|expr,expr  or  pkg|(*T).~(string)error|$1|eventname
	resetF   multi // repo-relative package dirs that get a generated VerifReset()
)

type fieldProbe struct{ pkg, typ, field string }
type funcProbe struct {
	pkg, fn string
	exprs   []string
	alias   string // event name to report (default: the function's name)
}

func die(code int, f string, a ...interface{}) {
	fmt.Fprintf(os.Stderr, "vinst: "+f+"\n", a...)
	os.Exit(code)
}

func main() {
	flag.Var(&virt, "virtual", "srcdir=repo-relative virtual package dir (repeatable)")
	flag.Var(&inject, "inject", "srcfile=repo-relative destination file (repeatable)")
	flag.Var(&fieldsF, "field", "probed plain shared field: pkg|Type.field or pkg|var (repeatable)")
	flag.Var(&probesF, "probe", "function probe: pkg|(*T).f|expr,expr or, by signature, pkg|(*T).~(string)error|$1|eventname (repeatable)")
	flag.Var(&resetF, "resetpkg", "repo-relative package dir: generate VerifReset() re-initialising every package-level variable (repeatable)")
	flag.Parse()
	if *out == "" {
		die(2, "-out required")
	}
	if err := os.MkdirAll(*out, 0o755); err != nil {
		die(2, "%v", err)
	}
	overlay := map[string]string{}

	// virtual packages: the runtime ...
	addDir := func(src, rel string) {
		filepath.Walk(src, func(p string, info os.FileInfo, err error) error {
			if err != nil {
				die(2, "%v", err)
			}
			if info.IsDir() || !strings.HasSuffix(p, ".go") {
				return nil
			}
			if strings.HasSuffix(p, "_test.go") && strings.Contains(src, "/rt/") {
				return nil
			}
			r, _ := filepath.Rel(src, p)
			overlay[filepath.Join(*repo, rel, r)] = p
			return nil
		})
	}
	addDir(*rtDir, "vrt")
	for _, v := range virt {
		kv := strings.SplitN(v, "=", 2)
		if len(kv) != 2 {
			die(2, "bad -virtual %q", v)
		}
		addDir(kv[0], kv[1])
	}
	for _, v := range inject {
		kv := strings.SplitN(v, "=", 2)
		if len(kv) != 2 {
			die(2, "bad -inject %q", v)
		}
		overlay[filepath.Join(*repo, kv[1])] = kv[0]
	}

	if !*noInst {
		instrument(overlay)
	}

	b, _ := json.MarshalIndent(map[string]interface{}{"Replace": overlay}, "", " ")
	if err := os.WriteFile(filepath.Join(*out, "overlay.json"), b, 0o644); err != nil {
		die(2, "%v", err)
	}
}

func instrument(overlay map[string]string) {
	var fps []fieldProbe
	for _, f := range fieldsF {
		parts := strings.Split(f, "|")
		if len(parts) != 2 {
			die(2, "bad -field %q", f)
		}
		tf := strings.SplitN(parts[1], ".", 2)
		if len(tf) == 2 {
			fps = append(fps, fieldProbe{modPath + "/" + parts[0], tf[0], tf[1]})
		} else {
			fps = append(fps, fieldProbe{modPath + "/" + parts[0], "", tf[0]})
		}
	}
	var pps []funcProbe
	for _, f := range probesF {
		parts := strings.Split(f, "|")
		if len(parts) < 2 {
			die(2, "bad -probe %q", f)
		}
		p := funcProbe{pkg: modPath + "/" + parts[0], fn: parts[1]}
		if len(parts) > 2 && parts[2] != "" {
			p.exprs = strings.Split(parts[2], ",")
		}
		if len(parts) > 3 {
			p.alias = parts[3]
		}
		pps = append(pps, p)
	}
	var patterns []string
	for _, p := range strings.Split(*pkgsFlag, ",") {
		if p = strings.TrimSpace(p); p != "" {
			patterns = append(patterns, "./"+p)
		}
	}
	for _, p := range strings.Split(*extPkgs, ",") {
		if p = strings.TrimSpace(p); p != "" {
			patterns = append(patterns, p)
		}
	}
	shimExec := map[string]bool{}
	for _, p := range strings.Split(*execShim, ",") {
		if p = strings.TrimSpace(p); p != "" {
			shimExec[modPath+"/"+p] = true
		}
	}
	cfg := &packages.Config{
		Mode: packages.NeedName | packages.NeedFiles | packages.NeedCompiledGoFiles | packages.NeedSyntax | packages.NeedTypes | packages.NeedTypesInfo | packages.NeedImports,
		Dir:  *repo,
		Env:  append(os.Environ(), "GOFLAGS=-mod=mod", "GOPROXY=off", "GOSUMDB=off", "GOTOOLCHAIN=local"),
	}
	pkgs, err := packages.Load(cfg, patterns...)
	if err != nil {
		die(2, "load: %v", err)
	}
	sort.Slice(pkgs, func(i, j int) bool { return pkgs[i].PkgPath < pkgs[j].PkgPath })
	nerr := 0
	for _, p := range pkgs {
		for _, e := range p.Errors {
			fmt.Fprintf(os.Stderr, "vinst: %s: %v\n", p.PkgPath, e)
			nerr++
		}
	}
	if nerr > 0 {
		// The tree does not type-check: not something the checker can judge.
		die(2, "packages do not type-check")
	}
	resetPkgs := map[string]bool{}
	for _, rp := range resetF {
		resetPkgs[modPath+"/"+rp] = true
	}
	probeHits := map[string]int{}
	for _, p := range pkgs {
		var resetFns []string
		for i, f := range p.Syntax {
			if resetPkgs[p.PkgPath] {
				if fn := addResetFunc(p.Fset, f, i); fn != "" {
					resetFns = append(resetFns, fn)
				}
			}
			name := p.CompiledGoFiles[i]
			r := &rewriter{pkg: p, file: f, fset: p.Fset, fields: fps, probes: pps, shimExec: shimExec[p.PkgPath], probeHits: probeHits}
			r.run()
			var buf bytes.Buffer
			if err := format.Node(&buf, p.Fset, f); err != nil {
				die(2, "print %s: %v", name, err)
			}
			rel, _ := filepath.Rel(*repo, name)
			if strings.HasPrefix(rel, "..") {
				rel = filepath.Join("_ext", p.PkgPath, filepath.Base(name))
			}
			dst := filepath.Join(*out, "src", rel)
			os.MkdirAll(filepath.Dir(dst), 0o755)
			if err := os.WriteFile(dst, buf.Bytes(), 0o644); err != nil {
				die(2, "%v", err)
			}
			overlay[name] = dst
		}
		if resetPkgs[p.PkgPath] && len(p.CompiledGoFiles) > 0 {
			// the generated entry point: every package-level variable back to its declared initial value
			var b bytes.Buffer
			fmt.Fprintf(&b, "//go:build verif\n\npackage %s\n\nimport \"reflect\"\n\nfunc verifZero(p interface{}) {\n\tv := reflect.ValueOf(p).Elem()\n\tv.Set(reflect.Zero(v.Type()))\n}\n\n// VerifReset re-initialises the package-level state between explored executions (generated).\nfunc VerifReset() {\n", p.Name)
			for _, fn := range resetFns {
				fmt.Fprintf(&b, "\t%s()\n", fn)
			}
			b.WriteString("}\n")
			dir := filepath.Dir(p.CompiledGoFiles[0])
			rel, _ := filepath.Rel(*repo, dir)
			dst := filepath.Join(*out, "src", rel, "zz_verif_reset_gen.go")
			os.MkdirAll(filepath.Dir(dst), 0o755)
			if err := os.WriteFile(dst, b.Bytes(), 0o644); err != nil {
				die(2, "%v", err)
			}
			overlay[filepath.Join(dir, "zz_verif_reset_gen.go")] = dst
		}
	}
	for _, pp := range pps {
		if probeHits[pp.pkg+"|"+pp.fn] == 0 {
			die(2, "function probe %s %s matches no function", pp.pkg, pp.fn)
		}
		if strings.Contains(pp.fn, ".~") && probeHits[pp.pkg+"|"+pp.fn] > 1 {
			die(2, "function probe by signature %s %s matches %d functions", pp.pkg, pp.fn, probeHits[pp.pkg+"|"+pp.fn])
		}
	}
}

// addResetFunc appends to file f a function that assigns every package-level variable declared in f its
// declared initial value again (the zero value when there is none) and returns the function's name.
func addResetFunc(fset *token.FileSet, f *ast.File, idx int) string {
	var stmts []ast.Stmt
	src := func(e ast.Expr) ast.Expr {
		var b bytes.Buffer
		format.Node(&b, fset, e)
		x, err := parser.ParseExpr(b.String())
		if err != nil {
			die(2, "reset: cannot re-parse %q: %v", b.String(), err)
		}
		return x
	}
	for _, d := range f.Decls {
		gd, ok := d.(*ast.GenDecl)
		if !ok || gd.Tok != token.VAR {
			continue
		}
		for _, sp := range gd.Specs {
			vs := sp.(*ast.ValueSpec)
			var names []ast.Expr
			for _, n := range vs.Names {
				if n.Name != "_" {
					names = append(names, ast.NewIdent(n.Name))
				}
			}
			if len(names) != len(vs.Names) || len(names) == 0 {
				continue
			}
			switch {
			case len(vs.Values) == 0:
				for _, n := range names {
					stmts = append(stmts, &ast.ExprStmt{X: &ast.CallExpr{Fun: ast.NewIdent("verifZero"), Args: []ast.Expr{&ast.UnaryExpr{Op: token.AND, X: n}}}})
				}
			case len(vs.Values) == len(names):
				for i, n := range names {
					if isImmutableInit(vs.Values[i]) {
						continue
					}
					stmts = append(stmts, &ast.AssignStmt{Lhs: []ast.Expr{n}, Tok: token.ASSIGN, Rhs: []ast.Expr{src(vs.Values[i])}})
				}
			default:
				stmts = append(stmts, &ast.AssignStmt{Lhs: names, Tok: token.ASSIGN, Rhs: []ast.Expr{src(vs.Values[0])}})
			}
		}
	}
	if len(stmts) == 0 {
		return ""
	}
	name := fmt.Sprintf("verifReset%d", idx)
	f.Decls = append(f.Decls, &ast.FuncDecl{Name: ast.NewIdent(name), Type: &ast.FuncType{Params: &ast.FieldList{}}, Body: &ast.BlockStmt{List: stmts}})
	return name
}

// isImmutableInit: initialisers whose value is never modified afterwards need no re-initialisation
// (compiled regular expressions: recompiling them in every explored execution only costs time).
func isImmutableInit(e ast.Expr) bool {
	if c, ok := e.(*ast.CallExpr); ok {
		if sel, ok := c.Fun.(*ast.SelectorExpr); ok {
			if x, ok := sel.X.(*ast.Ident); ok && x.Name == "regexp" && (sel.Sel.Name == "MustCompile" || sel.Sel.Name == "MustCompilePOSIX") {
				return true
			}
		}
	}
	return false
}

func parseExpr(s string) (ast.Expr, error) { return parser.ParseExpr(s) }

// signature renders a function's parameter and result types as "(t1,t2)r1,r2".
func (r *rewriter) signature(fd *ast.FuncDecl) string {
	list := func(fl *ast.FieldList) string {
		var ts []string
		if fl != nil {
			for _, f := range fl.List {
				var b bytes.Buffer
				format.Node(&b, r.fset, f.Type)
				n := len(f.Names)
				if n == 0 {
					n = 1
				}
				for i := 0; i < n; i++ {
					ts = append(ts, b.String())
				}
			}
		}
		return strings.Join(ts, ",")
	}
	return "(" + list(fd.Type.Params) + ")" + list(fd.Type.Results)
}

// paramName returns the name of the n-th parameter (1-based), giving it one if it is anonymous.
func (r *rewriter) paramName(fd *ast.FuncDecl, n int) string {
	k := 0
	for _, f := range fd.Type.Params.List {
		if len(f.Names) == 0 {
			f.Names = []*ast.Ident{ast.NewIdent(fmt.Sprintf("verifArg%d", k+1))}
		}
		for _, id := range f.Names {
			k++
			if k == n {
				if id.Name == "_" {
					id.Name = fmt.Sprintf("verifArg%d", k)
				}
				return id.Name
			}
		}
	}
	die(2, "probe: %s has no parameter %d", fd.Name.Name, n)
	return ""
}

type rewriter struct {
	sleepLoop  map[*ast.CallExpr]string
	cleanLoops map[*ast.ForStmt]string
	skipRecv map[*ast.UnaryExpr]bool
	skipSend map[*ast.SendStmt]bool // sends that are the communication of a select clause
	pkg      *packages.Package
	probeHits map[string]int
	file     *ast.File
	fset     *token.FileSet
	fields   []fieldProbe
	probes   []funcProbe
	shimExec bool
	needVrt  bool
	tmp      int
}

func (r *rewriter) fail(n ast.Node, f string, a ...interface{}) {
	die(2, "%s: "+f, append([]interface{}{r.fset.Position(n.Pos())}, a...)...)
}

func (r *rewriter) fresh(prefix string) string {
	r.tmp++
	return fmt.Sprintf("_vr%s%d", prefix, r.tmp)
}

func (r *rewriter) vrt(name string) ast.Expr {
	r.needVrt = true
	return &ast.SelectorExpr{X: ast.NewIdent("vrt"), Sel: ast.NewIdent(name)}
}

func (r *rewriter) call(name string, args ...ast.Expr) *ast.CallExpr {
	return &ast.CallExpr{Fun: r.vrt(name), Args: args}
}

// typeExpr renders type t as source text valid inside this file.
func (r *rewriter) typeExpr(t types.Type, at ast.Node) ast.Expr {
	s := types.TypeString(t, func(p *types.Package) string {
		if p == r.pkg.Types {
			return ""
		}
		// find the import name used in this file
		for _, imp := range r.file.Imports {
			path, _ := strconv.Unquote(imp.Path.Value)
			if path == p.Path() {
				if imp.Name != nil {
					if imp.Name.Name == "." {
						return ""
					}
					if imp.Name.Name != "_" {
						return imp.Name.Name
					}
				}
				return p.Name()
			}
		}
		// not imported: add it under a private alias
		alias := "_vrimp_" + p.Name()
		astutil.AddNamedImport(r.fset, r.file, alias, p.Path())
		return alias
	})
	e, err := parseExpr(s)
	if err != nil {
		r.fail(at, "cannot render type %s: %v", s, err)
	}
	return e
}

func (r *rewriter) typeOf(e ast.Expr) types.Type {
	tv, ok := r.pkg.TypesInfo.Types[e]
	if !ok {
		return nil
	}
	return tv.Type
}

func isChan(t types.Type) bool {
	if t == nil {
		return false
	}
	_, ok := t.Underlying().(*types.Chan)
	return ok
}

func (r *rewriter) calleeIs(c *ast.CallExpr, pkg, name string) bool {
	sel, ok := c.Fun.(*ast.SelectorExpr)
	if !ok {
		return false
	}
	obj := r.pkg.TypesInfo.Uses[sel.Sel]
	if obj == nil || obj.Pkg() == nil {
		return false
	}
	return obj.Pkg().Path() == pkg && obj.Name() == name
}

// isLogCall: a call of a package-level function of logrus or of a method of one of its types.
func (r *rewriter) isLogCall(c *ast.CallExpr) bool {
	sel, ok := c.Fun.(*ast.SelectorExpr)
	if !ok {
		return false
	}
	obj := r.pkg.TypesInfo.Uses[sel.Sel]
	if obj == nil || obj.Pkg() == nil {
		return false
	}
	return obj.Pkg().Path() == "github.com/sirupsen/logrus"
}

func (r *rewriter) isBuiltin(c *ast.CallExpr, name string) bool {
	id, ok := c.Fun.(*ast.Ident)
	if !ok || id.Name != name {
		return false
	}
	_, isB := r.pkg.TypesInfo.Uses[id].(*types.Builtin)
	return isB
}

// castFrom builds `func() T { if x == nil { var z T; return z }; return x.(T) }()` for an
// interface{} valued expression x.
func (r *rewriter) castExprStmts(target string, define bool, t types.Type, src ast.Expr, at ast.Node) []ast.Stmt {
	te := r.typeExpr(t, at)
	var stmts []ast.Stmt
	if define {
		stmts = append(stmts, &ast.DeclStmt{Decl: &ast.GenDecl{Tok: token.VAR, Specs: []ast.Spec{&ast.ValueSpec{Names: []*ast.Ident{ast.NewIdent(target)}, Type: te}}}})
	}
	tmp := r.fresh("x")
	stmts = append(stmts, &ast.IfStmt{
		Init: &ast.AssignStmt{Lhs: []ast.Expr{ast.NewIdent(tmp)}, Tok: token.DEFINE, Rhs: []ast.Expr{src}},
		Cond: &ast.BinaryExpr{X: ast.NewIdent(tmp), Op: token.NEQ, Y: ast.NewIdent("nil")},
		Body: &ast.BlockStmt{List: []ast.Stmt{&ast.AssignStmt{Lhs: []ast.Expr{ast.NewIdent(target)}, Tok: token.ASSIGN,
			Rhs: []ast.Expr{&ast.TypeAssertExpr{X: ast.NewIdent(tmp), Type: r.typeExpr(t, at)}}}}},
	})
	return stmts
}

// recvFunc builds a closure call that receives from ch and returns (T) or (T, bool).
func (r *rewriter) recvFunc(ch ast.Expr, elem types.Type, two bool, at ast.Node) ast.Expr {
	results := []*ast.Field{{Type: r.typeExpr(elem, at)}}
	if two {
		results = append(results, &ast.Field{Type: ast.NewIdent("bool")})
	}
	body := []ast.Stmt{
		&ast.AssignStmt{Lhs: []ast.Expr{ast.NewIdent("_v"), ast.NewIdent("_ok")}, Tok: token.DEFINE, Rhs: []ast.Expr{r.call("RecvOK", ch)}},
	}
	body = append(body, r.castExprStmts("_z", true, elem, ast.NewIdent("_v"), at)...)
	ret := &ast.ReturnStmt{Results: []ast.Expr{ast.NewIdent("_z")}}
	if two {
		ret.Results = append(ret.Results, ast.NewIdent("_ok"))
	} else {
		body = append(body, &ast.AssignStmt{Lhs: []ast.Expr{ast.NewIdent("_")}, Tok: token.ASSIGN, Rhs: []ast.Expr{ast.NewIdent("_ok")}})
	}
	body = append(body, ret)
	return &ast.CallExpr{Fun: &ast.FuncLit{Type: &ast.FuncType{Params: &ast.FieldList{}, Results: &ast.FieldList{List: results}}, Body: &ast.BlockStmt{List: body}}}
}

func (r *rewriter) run() {
	// 1. imports
	for _, imp := range r.file.Imports {
		path, _ := strconv.Unquote(imp.Path.Value)
		switch path {
		case "sync":
			imp.Path.Value = strconv.Quote(vrtPath + "/vsync")
			if imp.Name == nil {
				imp.Name = ast.NewIdent("sync")
			}
		case "sync/atomic":
			imp.Path.Value = strconv.Quote(vrtPath + "/vatomic")
			if imp.Name == nil {
				imp.Name = ast.NewIdent("atomic")
			}
		case "os/exec":
			if r.shimExec {
				imp.Path.Value = strconv.Quote(vrtPath + "/vexec")
				if imp.Name == nil {
					imp.Name = ast.NewIdent("exec")
				}
			}
		}
	}

	// 2. function probes (before other rewrites so that the inserted statements are not touched)
	for _, d := range r.file.Decls {
		fd, ok := d.(*ast.FuncDecl)
		if !ok || fd.Body == nil {
			continue
		}
		name := fd.Name.Name
		if fd.Recv != nil && len(fd.Recv.List) == 1 {
			var b bytes.Buffer
			format.Node(&b, r.fset, fd.Recv.List[0].Type)
			name = "(" + b.String() + ")." + name
		}
		for _, p := range r.probes {
			match := p.pkg == r.pkg.PkgPath && p.fn == name
			if !match && p.pkg == r.pkg.PkgPath && strings.Contains(p.fn, ".~") {
				// by signature: "(*T).~(string)error" = the unexported method of *T with exactly these parameter and result types
				k := strings.Index(p.fn, ".~")
				match = strings.HasPrefix(name, p.fn[:k]+".") && !fd.Name.IsExported() && r.signature(fd) == p.fn[k+2:]
			}
			if match {
				if r.probeHits != nil {
					r.probeHits[p.pkg+"|"+p.fn]++
				}
				evName := fd.Name.Name
				if p.alias != "" {
					evName = p.alias
				}
				var args []ast.Expr
				args = append(args, &ast.BasicLit{Kind: token.STRING, Value: strconv.Quote(evName)})
				for _, e := range p.exprs {
					if strings.HasPrefix(e, "$") { // $n: the n-th parameter, whatever it is called
						n, _ := strconv.Atoi(e[1:])
						e = r.paramName(fd, n)
					}
					x, err := parseExpr(e)
					if err != nil {
						die(2, "probe expr %q: %v", e, err)
					}
					args = append(args, x)
				}
				enter := &ast.ExprStmt{X: r.call("Enter", args...)}
				exit := &ast.DeferStmt{Call: r.call("Exit", args[0])}
				fd.Body.List = append([]ast.Stmt{enter, exit}, fd.Body.List...)
			}
		}
	}

	// 3. statement / expression rewrites
	r.skipRecv = map[*ast.UnaryExpr]bool{}
	r.skipSend = map[*ast.SendStmt]bool{}
	r.findSleepLoops()
	astutil.Apply(r.file, func(c *astutil.Cursor) bool {
		if sel, ok := c.Node().(*ast.SelectStmt); ok {
			for _, cl := range sel.Body.List {
				cc := cl.(*ast.CommClause)
				switch s := cc.Comm.(type) {
				case *ast.SendStmt:
					r.skipSend[s] = true
				case *ast.ExprStmt:
					if u, ok := s.X.(*ast.UnaryExpr); ok {
						r.skipRecv[u] = true
					}
				case *ast.AssignStmt:
					if u, ok := s.Rhs[0].(*ast.UnaryExpr); ok {
						r.skipRecv[u] = true
					}
				}
			}
		}
		return true
	}, func(c *astutil.Cursor) bool {
		switch n := c.Node().(type) {
		case *ast.ExprStmt:
			if *logPts && c.Index() >= 0 {
				if call, ok := n.X.(*ast.CallExpr); ok && r.isLogCall(call) {
					r.needVrt = true
					c.InsertBefore(&ast.ExprStmt{X: r.call("Point")})
				}
			}
		case *ast.GoStmt:
			c.Replace(r.rewriteGo(n))
		case *ast.CallExpr:
			if r.calleeIs(n, "time", "Sleep") {
				if tok, ok := r.sleepLoop[n]; ok {
					n.Fun = r.vrt("SleepIn")
					n.Args = append([]ast.Expr{ast.NewIdent(tok)}, n.Args...)
				} else {
					n.Fun = r.vrt("Sleep")
				}
			} else if r.calleeIs(n, "time", "After") {
				n.Fun = r.vrt("After")
			} else if r.isBuiltin(n, "close") && len(n.Args) == 1 {
				n.Fun = r.vrt("Close")
			}
		case *ast.IncDecStmt:
			if st := r.splitRMW(n.X, n.Tok, nil, n); st != nil {
				c.Replace(st)
			}
		case *ast.AssignStmt:
			if len(n.Lhs) == 1 && len(n.Rhs) == 1 && n.Tok != token.ASSIGN && n.Tok != token.DEFINE {
				if st := r.splitRMW(n.Lhs[0], n.Tok, n.Rhs[0], n); st != nil {
					c.Replace(st)
				}
			}
		case *ast.ForStmt:
			if tok, ok := r.cleanLoops[n]; ok {
				c.InsertBefore(&ast.AssignStmt{Lhs: []ast.Expr{ast.NewIdent(tok)}, Tok: token.DEFINE, Rhs: []ast.Expr{r.call("LoopEnter")}})
			}
		case *ast.SendStmt:
			if !r.skipSend[n] {
				c.Replace(&ast.ExprStmt{X: r.call("Send", n.Chan, n.Value)})
			}
		case *ast.UnaryExpr:
			if n.Op != token.ARROW || r.skipRecv[n] {
				break
			}
			t := r.typeOf(n.X)
			if !isChan(t) {
				r.fail(n, "receive from non-channel?")
			}
			elem := t.Underlying().(*types.Chan).Elem()
			switch parent := c.Parent().(type) {
			case *ast.ExprStmt:
				c.Replace(r.call("Recv", n.X))
			case *ast.AssignStmt:
				if len(parent.Lhs) == 2 && len(parent.Rhs) == 1 {
					c.Replace(r.recvFunc(n.X, elem, true, n))
				} else {
					c.Replace(r.recvFunc(n.X, elem, false, n))
				}
			case *ast.ValueSpec:
				if len(parent.Names) == 2 && len(parent.Values) == 1 {
					c.Replace(r.recvFunc(n.X, elem, true, n))
				} else {
					c.Replace(r.recvFunc(n.X, elem, false, n))
				}
			default:
				c.Replace(r.recvFunc(n.X, elem, false, n))
			}
		case *ast.SelectStmt:
			c.Replace(r.rewriteSelect(n))
		case *ast.RangeStmt:
			t := r.typeOf(n.X)
			if t == nil {
				break
			}
			switch u := t.Underlying().(type) {
			case *types.Map:
				r.rewriteMapRange(n, u)
			case *types.Chan:
				r.rewriteChanRange(c, n, u)
			}
		}
		return true
	})

	// 4. probed plain fields
	if len(r.fields) > 0 {
		r.insertTouches()
	}

	if r.needVrt {
		astutil.AddNamedImport(r.fset, r.file, "vrt", vrtPath)
	}
}

// findSleepLoops finds the polling loops: `for` statements (directly inside a statement list)
// whose body calls time.Sleep. A loop is clean when its body (function literals excluded: they
// run as other threads or are analysed on their own) assigns no variable declared outside the loop
// and no field or element of anything: then no thread-local state survives from one Sleep to the
// next and vrt.SleepIn may merge states across passes.
func (r *rewriter) findSleepLoops() {
	r.sleepLoop = map[*ast.CallExpr]string{}
	r.cleanLoops = map[*ast.ForStmt]string{}
	var visitList func(list []ast.Stmt)
	var inspectLoop func(f *ast.ForStmt) (sleeps []*ast.CallExpr, clean bool)
	inspectLoop = func(f *ast.ForStmt) ([]*ast.CallExpr, bool) {
		clean := f.Init == nil && f.Post == nil
		var sleeps []*ast.CallExpr
		ast.Inspect(f.Body, func(n ast.Node) bool {
			switch x := n.(type) {
			case *ast.FuncLit:
				return false
			case *ast.ForStmt, *ast.RangeStmt:
				// nested loops: a Sleep inside them is not a pass boundary of f
				if x != ast.Node(f) {
					ast.Inspect(x, func(m ast.Node) bool {
						if c, ok := m.(*ast.CallExpr); ok && r.calleeIs(c, "time", "Sleep") {
							clean = false
						}
						if _, ok := m.(*ast.FuncLit); ok {
							return false
						}
						return true
					})
				}
			case *ast.CallExpr:
				if r.calleeIs(x, "time", "Sleep") {
					sleeps = append(sleeps, x)
				}
			case *ast.AssignStmt:
				if x.Tok == token.DEFINE {
					// `:=` may still assign an outer variable when mixed; check each lhs
				}
				for _, l := range x.Lhs {
					id, ok := l.(*ast.Ident)
					if !ok {
						clean = false // field / element / pointer assignment
						continue
					}
					if id.Name == "_" {
						continue
					}
					obj := r.pkg.TypesInfo.ObjectOf(id)
					if obj == nil || obj.Pos() < f.Body.Pos() || obj.Pos() > f.Body.End() {
						clean = false
					}
				}
			case *ast.IncDecStmt:
				id, ok := x.X.(*ast.Ident)
				if !ok {
					clean = false
				} else if obj := r.pkg.TypesInfo.ObjectOf(id); obj == nil || obj.Pos() < f.Body.Pos() || obj.Pos() > f.Body.End() {
					clean = false
				}
			}
			return true
		})
		// sleeps inside nested loops were collected too: drop them if not clean anyway
		return sleeps, clean
	}
	visitList = func(list []ast.Stmt) {
		for _, s := range list {
			f, ok := s.(*ast.ForStmt)
			if !ok {
				continue
			}
			sleeps, clean := inspectLoop(f)
			if len(sleeps) == 0 || !clean {
				continue
			}
			tok := r.fresh("loop")
			r.cleanLoops[f] = tok
			for _, c := range sleeps {
				r.sleepLoop[c] = tok
			}
		}
	}
	ast.Inspect(r.file, func(n ast.Node) bool {
		switch x := n.(type) {
		case *ast.BlockStmt:
			visitList(x.List)
		case *ast.CaseClause:
			visitList(x.Body)
		case *ast.CommClause:
			visitList(x.Body)
		}
		return true
	})
}

// splitRMW makes the non-atomicity of `x.f++` / `x.f += e` on a struct field visible: the read and
// the write of a read-modify-write on shared memory are two steps in Go, so a scheduling point is
// placed between them (`t := x.f; vrt.Touch; x.f = t op e`). Only fields reached through a
// pointer or a package-level variable are split (locals cannot be shared without one of those).
func (r *rewriter) splitRMW(lhs ast.Expr, tok token.Token, rhs ast.Expr, at ast.Node) ast.Stmt {
	sel, ok := lhs.(*ast.SelectorExpr)
	if !ok {
		return nil
	}
	selInfo := r.pkg.TypesInfo.Selections[sel]
	if selInfo == nil || selInfo.Kind() != types.FieldVal {
		return nil
	}
	// the base must be a plain chain of identifiers/selectors (no calls, no index side effects)
	base := sel.X
	for {
		switch b := base.(type) {
		case *ast.SelectorExpr:
			base = b.X
			continue
		case *ast.Ident:
		case *ast.StarExpr:
			base = b.X
			continue
		case *ast.ParenExpr:
			base = b.X
			continue
		default:
			return nil
		}
		break
	}
	t := r.typeOf(lhs)
	if t == nil {
		return nil
	}
	if _, isBasic := t.Underlying().(*types.Basic); !isBasic {
		return nil
	}
	// a field of a local struct VALUE (not reached through a pointer) is not shared
	if id, ok := base.(*ast.Ident); ok {
		if obj, ok := r.pkg.TypesInfo.Uses[id].(*types.Var); ok && obj.Parent() != obj.Pkg().Scope() {
			if _, isPtr := obj.Type().Underlying().(*types.Pointer); !isPtr && !selInfo.Indirect() {
				return nil
			}
		}
	}
	var op token.Token
	var operand ast.Expr
	switch tok {
	case token.INC:
		op, operand = token.ADD, &ast.BasicLit{Kind: token.INT, Value: "1"}
	case token.DEC:
		op, operand = token.SUB, &ast.BasicLit{Kind: token.INT, Value: "1"}
	case token.ADD_ASSIGN:
		op, operand = token.ADD, rhs
	case token.SUB_ASSIGN:
		op, operand = token.SUB, rhs
	case token.MUL_ASSIGN:
		op, operand = token.MUL, rhs
	case token.OR_ASSIGN:
		op, operand = token.OR, rhs
	case token.AND_ASSIGN:
		op, operand = token.AND, rhs
	default:
		return nil
	}
	tmp := r.fresh("rmw")
	name := "rmw:" + sel.Sel.Name
	return &ast.BlockStmt{List: []ast.Stmt{
		&ast.AssignStmt{Lhs: []ast.Expr{ast.NewIdent(tmp)}, Tok: token.DEFINE, Rhs: []ast.Expr{lhs}},
		&ast.ExprStmt{X: r.call("Touch", &ast.BasicLit{Kind: token.STRING, Value: strconv.Quote(name)}, ast.NewIdent("true"))},
		&ast.AssignStmt{Lhs: []ast.Expr{lhs}, Tok: token.ASSIGN, Rhs: []ast.Expr{&ast.BinaryExpr{X: ast.NewIdent(tmp), Op: op, Y: &ast.ParenExpr{X: operand}}}},
	}}
}

func (r *rewriter) rewriteGo(g *ast.GoStmt) ast.Stmt {
	var stmts []ast.Stmt
	call := g.Call
	fn := call.Fun
	// evaluate the function value eagerly unless it is a literal or a plain package-level function
	switch f := fn.(type) {
	case *ast.FuncLit:
	case *ast.Ident:
		_ = f
	default:
		name := r.fresh("f")
		stmts = append(stmts, &ast.AssignStmt{Lhs: []ast.Expr{ast.NewIdent(name)}, Tok: token.DEFINE, Rhs: []ast.Expr{fn}})
		fn = ast.NewIdent(name)
	}
	var args []ast.Expr
	for _, a := range call.Args {
		name := r.fresh("a")
		stmts = append(stmts, &ast.AssignStmt{Lhs: []ast.Expr{ast.NewIdent(name)}, Tok: token.DEFINE, Rhs: []ast.Expr{a}})
		args = append(args, ast.NewIdent(name))
	}
	inner := &ast.CallExpr{Fun: fn, Args: args, Ellipsis: call.Ellipsis}
	lit := &ast.FuncLit{Type: &ast.FuncType{Params: &ast.FieldList{}}, Body: &ast.BlockStmt{List: []ast.Stmt{&ast.ExprStmt{X: inner}}}}
	stmts = append(stmts, &ast.ExprStmt{X: r.call("Go", lit)})
	return &ast.BlockStmt{List: stmts}
}

func (r *rewriter) rewriteSelect(sel *ast.SelectStmt) ast.Stmt {
	var cases []ast.Expr
	hasDefault := false
	sw := &ast.SwitchStmt{Tag: ast.NewIdent("_vri"), Body: &ast.BlockStmt{}}
	idx := 0
	for _, cl := range sel.Body.List {
		cc := cl.(*ast.CommClause)
		if cc.Comm == nil {
			hasDefault = true
			sw.Body.List = append(sw.Body.List, &ast.CaseClause{List: []ast.Expr{&ast.UnaryExpr{Op: token.SUB, X: &ast.BasicLit{Kind: token.INT, Value: "1"}}}, Body: cc.Body})
			continue
		}
		var pre []ast.Stmt
		mk := func(fields ...ast.Expr) ast.Expr {
			return &ast.CompositeLit{Type: r.vrt("Case"), Elts: fields}
		}
		kv := func(k string, v ast.Expr) ast.Expr { return &ast.KeyValueExpr{Key: ast.NewIdent(k), Value: v} }
		switch s := cc.Comm.(type) {
		case *ast.SendStmt:
			cases = append(cases, mk(kv("Send", ast.NewIdent("true")), kv("Ch", s.Chan), kv("Val", s.Value)))
		case *ast.ExprStmt:
			u, ok := s.X.(*ast.UnaryExpr)
			if !ok || u.Op != token.ARROW {
				r.fail(s, "unsupported select clause")
			}
			cases = append(cases, mk(kv("Ch", u.X)))
		case *ast.AssignStmt:
			u, ok := s.Rhs[0].(*ast.UnaryExpr)
			if !ok || u.Op != token.ARROW {
				r.fail(s, "unsupported select clause")
			}
			cases = append(cases, mk(kv("Ch", u.X)))
			elem := r.typeOf(u.X).Underlying().(*types.Chan).Elem()
			define := s.Tok == token.DEFINE
			if id, ok := s.Lhs[0].(*ast.Ident); ok {
				if id.Name != "_" {
					pre = append(pre, r.castExprStmts(id.Name, define, elem, ast.NewIdent("_vrv"), s)...)
				}
			} else {
				r.fail(s, "unsupported select receive target")
			}
			if len(s.Lhs) == 2 {
				if id, ok := s.Lhs[1].(*ast.Ident); ok && id.Name != "_" {
					pre = append(pre, &ast.AssignStmt{Lhs: []ast.Expr{ast.NewIdent(id.Name)}, Tok: s.Tok, Rhs: []ast.Expr{ast.NewIdent("_vrok")}})
				}
			}
		default:
			r.fail(cc, "unsupported select clause")
		}
		sw.Body.List = append(sw.Body.List, &ast.CaseClause{List: []ast.Expr{&ast.BasicLit{Kind: token.INT, Value: strconv.Itoa(idx)}}, Body: append(pre, cc.Body...)})
		idx++
	}
	hd := "false"
	if hasDefault {
		hd = "true"
	}
	arr := &ast.CompositeLit{Type: &ast.ArrayType{Elt: r.vrt("Case")}, Elts: cases}
	assign := &ast.AssignStmt{Lhs: []ast.Expr{ast.NewIdent("_vri"), ast.NewIdent("_vrv"), ast.NewIdent("_vrok")}, Tok: token.DEFINE,
		Rhs: []ast.Expr{r.call("Select", ast.NewIdent(hd), arr)}}
	use := &ast.AssignStmt{Lhs: []ast.Expr{ast.NewIdent("_"), ast.NewIdent("_")}, Tok: token.ASSIGN, Rhs: []ast.Expr{ast.NewIdent("_vrv"), ast.NewIdent("_vrok")}}
	return &ast.BlockStmt{List: []ast.Stmt{assign, use, sw}}
}

func (r *rewriter) rewriteMapRange(n *ast.RangeStmt, m *types.Map) {
	ent := r.fresh("e")
	var pre []ast.Stmt
	define := n.Tok == token.DEFINE
	bind := func(target ast.Expr, t types.Type, field string) {
		if target == nil {
			return
		}
		src := &ast.CallExpr{Fun: &ast.SelectorExpr{X: &ast.SelectorExpr{X: ast.NewIdent(ent), Sel: ast.NewIdent(field)}, Sel: ast.NewIdent("Interface")}}
		if id, ok := target.(*ast.Ident); ok {
			if id.Name == "_" {
				return
			}
			pre = append(pre, r.castExprStmts(id.Name, define, t, src, n)...)
			return
		}
		// general assignable expression (only with '=')
		tmp := r.fresh("t")
		pre = append(pre, r.castExprStmts(tmp, true, t, src, n)...)
		pre = append(pre, &ast.AssignStmt{Lhs: []ast.Expr{target}, Tok: token.ASSIGN, Rhs: []ast.Expr{ast.NewIdent(tmp)}})
	}
	bind(n.Key, m.Key(), "K")
	bind(n.Value, m.Elem(), "V")
	n.X = r.call("Entries", n.X)
	n.Key = ast.NewIdent("_")
	n.Value = ast.NewIdent(ent)
	n.Tok = token.DEFINE
	n.Body.List = append(pre, n.Body.List...)
}

func (r *rewriter) rewriteChanRange(c *astutil.Cursor, n *ast.RangeStmt, ch *types.Chan) {
	// for v := range ch {body}  =>  for { v, ok := recv; if !ok {break}; body }
	okName := r.fresh("ok")
	var target ast.Expr = ast.NewIdent("_")
	tok := token.ASSIGN
	if n.Key != nil {
		target = n.Key
		tok = n.Tok
	}
	var recv ast.Stmt
	if id, ok := target.(*ast.Ident); ok && id.Name == "_" {
		recv = &ast.AssignStmt{Lhs: []ast.Expr{ast.NewIdent("_"), ast.NewIdent(okName)}, Tok: token.DEFINE, Rhs: []ast.Expr{r.recvFunc(n.X, ch.Elem(), true, n)}}
	} else if tok == token.DEFINE {
		recv = &ast.AssignStmt{Lhs: []ast.Expr{target, ast.NewIdent(okName)}, Tok: token.DEFINE, Rhs: []ast.Expr{r.recvFunc(n.X, ch.Elem(), true, n)}}
	} else {
		r.fail(n, "range over channel with '=' not supported")
	}
	brk := &ast.IfStmt{Cond: &ast.UnaryExpr{Op: token.NOT, X: ast.NewIdent(okName)}, Body: &ast.BlockStmt{List: []ast.Stmt{&ast.BranchStmt{Tok: token.BREAK}}}}
	body := append([]ast.Stmt{recv, brk}, n.Body.List...)
	c.Replace(&ast.ForStmt{Body: &ast.BlockStmt{List: body}})
}

// ---- probed plain fields ----

func (r *rewriter) probedName(e ast.Expr) string {
	switch x := e.(type) {
	case *ast.SelectorExpr:
		obj := r.pkg.TypesInfo.Uses[x.Sel]
		v, ok := obj.(*types.Var)
		if !ok || v.Pkg() == nil {
			return ""
		}
		if v.IsField() {
			selInfo := r.pkg.TypesInfo.Selections[x]
			if selInfo == nil {
				return ""
			}
			recv := selInfo.Recv()
			if p, ok := recv.(*types.Pointer); ok {
				recv = p.Elem()
			}
			named, ok := recv.(*types.Named)
			if !ok {
				return ""
			}
			for _, f := range r.fields {
				if f.typ != "" && (f.field == v.Name() || f.field == "*") && f.typ == named.Obj().Name() && named.Obj().Pkg() != nil && named.Obj().Pkg().Path() == f.pkg {
					// shim objects (mutexes, wait groups, ...) are scheduling points themselves
					if tn, ok := v.Type().(*types.Named); ok && tn.Obj().Pkg() != nil && (tn.Obj().Pkg().Path() == "sync" || tn.Obj().Pkg().Path() == "sync/atomic") {
						return ""
					}
					return f.typ + "." + v.Name()
				}
			}
			return ""
		}
		for _, f := range r.fields {
			if f.typ == "" && f.field == v.Name() && v.Pkg().Path() == f.pkg {
				return f.field
			}
		}
	case *ast.Ident:
		obj := r.pkg.TypesInfo.Uses[x]
		v, ok := obj.(*types.Var)
		if !ok || v.Pkg() == nil || v.IsField() || v.Parent() != v.Pkg().Scope() {
			return ""
		}
		for _, f := range r.fields {
			if f.typ == "" && f.field == v.Name() && v.Pkg().Path() == f.pkg {
				return f.field
			}
		}
	}
	return ""
}

// ownExprs returns the expressions evaluated by statement s itself (not by nested statements).
func ownExprs(s ast.Stmt) (reads []ast.Expr, writes []ast.Expr) {
	switch x := s.(type) {
	case *ast.ExprStmt:
		reads = append(reads, x.X)
	case *ast.AssignStmt:
		reads = append(reads, x.Rhs...)
		for _, l := range x.Lhs {
			writes = append(writes, l)
		}
	case *ast.IncDecStmt:
		writes = append(writes, x.X)
	case *ast.ReturnStmt:
		reads = append(reads, x.Results...)
	case *ast.IfStmt:
		if x.Init != nil {
			r2, w2 := ownExprs(x.Init)
			reads, writes = append(reads, r2...), append(writes, w2...)
		}
		reads = append(reads, x.Cond)
	case *ast.ForStmt:
		if x.Init != nil {
			r2, w2 := ownExprs(x.Init)
			reads, writes = append(reads, r2...), append(writes, w2...)
		}
		if x.Cond != nil {
			reads = append(reads, x.Cond)
		}
	case *ast.RangeStmt:
		reads = append(reads, x.X)
	case *ast.SwitchStmt:
		if x.Init != nil {
			r2, w2 := ownExprs(x.Init)
			reads, writes = append(reads, r2...), append(writes, w2...)
		}
		if x.Tag != nil {
			reads = append(reads, x.Tag)
		}
	case *ast.GoStmt:
		reads = append(reads, x.Call)
	case *ast.DeferStmt:
		reads = append(reads, x.Call)
	case *ast.SendStmt:
		reads = append(reads, x.Chan, x.Value)
	case *ast.DeclStmt:
		if gd, ok := x.Decl.(*ast.GenDecl); ok {
			for _, sp := range gd.Specs {
				if vs, ok := sp.(*ast.ValueSpec); ok {
					reads = append(reads, vs.Values...)
				}
			}
		}
	case *ast.LabeledStmt:
		return ownExprs(x.Stmt)
	}
	return
}

func (r *rewriter) findProbed(e ast.Expr, isWrite bool, found map[string]bool) {
	if e == nil {
		return
	}
	top := true
	ast.Inspect(e, func(n ast.Node) bool {
		if _, ok := n.(*ast.FuncLit); ok {
			return false
		}
		ex, ok := n.(ast.Expr)
		if !ok {
			return true
		}
		if name := r.probedName(ex); name != "" {
			w := isWrite && top
			if w {
				found[name] = true
			} else if !found[name] {
				found[name] = false
			}
		}
		top = false
		return true
	})
}

func (r *rewriter) insertTouches() {
	var fix func(list []ast.Stmt) []ast.Stmt
	fix = func(list []ast.Stmt) []ast.Stmt {
		var out []ast.Stmt
		for _, s := range list {
			// skip statements we generated ourselves (vrt.* calls)
			reads, writes := ownExprs(s)
			found := map[string]bool{}
			for _, e := range writes {
				r.findProbed(e, true, found)
			}
			for _, e := range reads {
				r.findProbed(e, false, found)
			}
			var names []string
			for k := range found {
				names = append(names, k)
			}
			sort.Strings(names)
			for _, k := range names {
				w := "false"
				if found[k] {
					w = "true"
				}
				out = append(out, &ast.ExprStmt{X: r.call("Touch", &ast.BasicLit{Kind: token.STRING, Value: strconv.Quote(k)}, ast.NewIdent(w))})
			}
			out = append(out, s)
		}
		return out
	}
	ast.Inspect(r.file, func(n ast.Node) bool {
		switch x := n.(type) {
		case *ast.BlockStmt:
			x.List = fix(x.List)
		case *ast.CaseClause:
			x.Body = fix(x.Body)
		case *ast.CommClause:
			x.Body = fix(x.Body)
		}
		return true
	})
}
