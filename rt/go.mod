module github.com/taskctl/taskctl/internal

go 1.16
