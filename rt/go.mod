module github.com/taskctl/taskctl

go 1.16
