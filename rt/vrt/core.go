// Package vrt is the deterministic cooperative scheduler that the instrumented copies of taskctl's
// packages are linked against (see /verif/DESIGN.md §2). It is injected into the taskctl module as
// the virtual package github.com/taskctl/taskctl/vrt through `go build -overlay`.
//
// Exactly one registered thread runs at a time. Every shimmed synchronisation operation calls
// Point() first; at a point the running thread computes the enabled set in canonical order, takes
// the next choice from the replay prefix (or 0) and hands the baton over.
package vrt

import (
	"fmt"
	"runtime/debug"
	"sort"
	"strings"
	gosync "sync"
)

// Thread states.
const (
	tRunnable = iota
	tBlocked
	tSleeping
	tParked
	tDone
)

var stateNames = map[int]string{tRunnable: "runnable", tBlocked: "blocked", tSleeping: "sleeping", tParked: "parked", tDone: "done"}

type thread struct {
	id       int
	name     string
	wake     chan struct{}
	state    int
	pred     func() bool
	passFP   uint64 // fingerprint of the shared state when the current pass (since the last wake-up from Sleep) began
	started  bool
	external bool
	label    string // park label / block reason
	h        uint64 // hash of the sequence of (operation,result) this thread has performed
	body     func()
}

// Event is one entry of the observable log of an execution.
type Event struct {
	T    int    `json:"t"`
	Kind string `json:"k"`
	Arg  string `json:"a,omitempty"`
}

func (e Event) String() string { return fmt.Sprintf("T%d:%s(%s)", e.T, e.Kind, e.Arg) }

// PointRec describes one recorded scheduling point (only points with more than one alternative
// are recorded).
type PointRec struct {
	N         int    // number of alternatives
	Free      uint64 // bit i set: choosing alternative i costs no preemption
	Quiescent bool   // every enabled thread is parked (environment choice only)
	Data      bool   // a data (environment) choice, not a scheduling choice
	Key       uint64 // state key at this point
}

// Outcomes of an execution.
const (
	Completed = "completed"
	Deadlock  = "deadlock"
	Livelock  = "livelock"
	Panicked  = "panic"
	Aborted   = "abort" // logrus.Fatal or harness abort
	Diverged  = "diverged"
	Overrun   = "overrun" // step horizon exceeded
)

type killT struct{}

var kill = killT{}

// AbortSentinel is panicked by the harness' logrus exit function.
type AbortSentinel struct{ Msg string }

var endMu gosync.Mutex

// Sched is the per-execution scheduler. All shim state hangs off it.
type Sched struct {
	serial      uint64
	threads     []*thread
	cur         *thread
	prefix      []int
	Choices     []int
	Points      []PointRec
	Events      []Event
	Outcome     string
	PanicVal    string
	PanicThr    int
	Stack       string
	Blocked     []string // non-finished threads at deadlock/livelock
	aborting    bool
	finished    chan struct{}
	live        int
	fp          uint64
	nextID      uint64
	steps       int
	MaxSteps    int
	forced      int
	forcedFP    uint64
	Transitions int
	QuiescN     int

	atoms  map[interface{}]*objState
	chans  map[uintptr]*chanState
	fields map[string]*objState

	// OnQuiesc is called (by the harness) whenever only parked threads are enabled.
	OnQuiesc func(parked []string)
	// Fail lets a harness oracle that runs inside the execution record a violation.
	Failures []string
}

type objState struct {
	id  uint64
	val uint64
}

// S is the scheduler of the execution in progress (nil outside explorations: every shim then
// behaves like its plain sequential counterpart).
var S *Sched

var serialCounter uint64

func newSched(prefix []int) *Sched {
	serialCounter++
	return &Sched{
		serial:   serialCounter,
		prefix:   prefix,
		finished: make(chan struct{}),
		atoms:    make(map[interface{}]*objState),
		chans:    make(map[uintptr]*chanState),
		fields:   make(map[string]*objState),
		MaxSteps: 1000000,
	}
}

func mix(a, b uint64) uint64 {
	x := a*0x9E3779B97F4A7C15 ^ (b + 0xD6E8FEB86659FD93)
	x ^= x >> 32
	x *= 0xD6E8FEB86659FD93
	x ^= x >> 29
	x *= 0x9E3779B97F4A7C15
	x ^= x >> 32
	return x
}

func hashString(s string) uint64 {
	var h uint64 = 1469598103934665603
	for i := 0; i < len(s); i++ {
		h ^= uint64(s[i])
		h *= 1099511628211
	}
	return h
}

func (s *Sched) newID() uint64 { s.nextID++; return s.nextID }

// setVal records that shared object o now has value hash v. The fingerprint is value based: an
// object that returns to an earlier value returns the fingerprint to its earlier value, so a
// poller that takes and releases a lock in every pass does not look like progress.
func (s *Sched) setVal(o *objState, v uint64) {
	if o.val == v {
		return
	}
	s.fp ^= mix(o.id, o.val) ^ mix(o.id, v)
	o.val = v
}

func (s *Sched) note(op string, res uint64) {
	if t := s.cur; t != nil {
		t.h = mix(t.h^hashString(op), res)
	}
}

func (s *Sched) stateKey() uint64 {
	k := s.fp
	for _, t := range s.threads {
		// passFP is part of a thread's state: it decides whether the thread is enabled after its
		// next Sleep
		k = mix(k, mix(t.h^uint64(t.state)<<56, t.passFP))
	}
	if s.cur != nil {
		k = mix(k, uint64(s.cur.id))
	}
	return k
}

func (t *thread) enabled(s *Sched) bool {
	switch t.state {
	case tRunnable, tParked:
		return true
	case tBlocked:
		return t.pred()
	case tSleeping:
		return s.fp != t.passFP
	}
	return false
}

// pick computes the enabled set in canonical order and takes the next choice. It returns the
// thread to run next, or ended=true after having terminated the execution.
// Canonical order: the running thread first if it is still enabled and did not yield voluntarily,
// then the other enabled non-parked threads by ascending id, then the parked threads by ascending
// id, then the running thread if it yielded voluntarily by sleeping.
func (s *Sched) pick(me *thread, voluntary bool) (next *thread, ended bool) {
	s.steps++
	if s.steps > s.MaxSteps {
		s.end(Overrun, "step horizon exceeded")
		return nil, true
	}
	for {
		var en, parked []*thread
		meEnabled := me.state != tDone && me.enabled(s)
		if meEnabled && !voluntary {
			en = append(en, me)
		}
		for _, t := range s.threads {
			if t == me || t.state == tDone {
				continue
			}
			if t.state == tParked {
				parked = append(parked, t)
			} else if t.enabled(s) {
				en = append(en, t)
			}
		}
		if voluntary && meEnabled && me.state == tParked {
			parked = append(parked, me)
			sort.Slice(parked, func(i, j int) bool { return parked[i].id < parked[j].id })
		}
		quiescent := len(en) == 0 && len(parked) > 0 && !(voluntary && meEnabled && me.state == tSleeping)
		en = append(en, parked...)
		if voluntary && meEnabled && me.state != tParked {
			en = append(en, me)
		}
		if len(en) == 0 {
			var sleepers []*thread
			allDone := true
			for _, t := range s.threads {
				if t.state != tDone {
					allDone = false
				}
				if t.state == tSleeping {
					sleepers = append(sleepers, t)
				}
			}
			if allDone {
				s.end(Completed, "")
				return nil, true
			}
			if len(sleepers) > 0 {
				// visible-waiting rule: give every poller two more passes over the unchanged
				// state; if nothing changes, polling will never change anything.
				if s.forced == 0 || s.forcedFP != s.fp {
					s.forced = 0
					s.forcedFP = s.fp
				}
				if s.forced < 2*len(sleepers) {
					t := sleepers[s.forced%len(sleepers)]
					s.forced++
					t.passFP = ^s.fp
					continue
				}
				s.end(Livelock, "only pollers remain and polling changes nothing")
				return nil, true
			}
			s.end(Deadlock, "no enabled thread")
			return nil, true
		}
		if quiescent {
			s.QuiescN++
			if s.OnQuiesc != nil {
				labels := make([]string, 0, len(parked))
				for _, t := range parked {
					labels = append(labels, t.label)
				}
				s.OnQuiesc(labels)
				if s.aborting {
					return nil, true
				}
			}
		}
		idx := 0
		if len(en) > 1 {
			var ok bool
			idx, ok = s.nextChoice(len(en))
			if !ok {
				return nil, true
			}
			var free uint64
			preemptible := meEnabled && !voluntary
			for i, t := range en {
				if !preemptible || i == 0 || (t.external && !t.started) {
					free |= 1 << uint(i)
				}
			}
			s.Points = append(s.Points, PointRec{N: len(en), Free: free, Quiescent: quiescent, Key: s.stateKey()})
		}
		s.Transitions++
		return en[idx], false
	}
}

// yield is the place where control moves between threads. voluntary is true for Sleep and Park
// (the running thread is offered last and switching away is free).
func (s *Sched) yield(voluntary bool) {
	if s.aborting {
		panic(kill)
	}
	me := s.cur
	next, ended := s.pick(me, voluntary)
	if ended {
		panic(kill)
	}
	s.wakeUp(next)
	if next == me {
		return
	}
	s.cur = next
	next.wake <- struct{}{}
	<-me.wake
	if s.aborting {
		panic(kill)
	}
}

func (s *Sched) wakeUp(t *thread) {
	switch t.state {
	case tSleeping:
		t.passFP = s.fp
		t.state = tRunnable
	case tParked, tBlocked:
		t.state = tRunnable
	}
}

func (s *Sched) nextChoice(n int) (int, bool) {
	i := len(s.Choices)
	c := 0
	if i < len(s.prefix) {
		c = s.prefix[i]
		if c >= n || c < 0 {
			s.Choices = append(s.Choices, 0)
			s.end(Diverged, fmt.Sprintf("replay divergence at point %d: choice %d of %d", i, c, n))
			return 0, false
		}
	}
	s.Choices = append(s.Choices, c)
	return c, true
}

// end terminates the execution: every waiting goroutine is woken with aborting set and unwinds.
func (s *Sched) end(outcome, msg string) {
	if s.aborting {
		return
	}
	s.Outcome = outcome
	if msg != "" && s.PanicVal == "" {
		s.PanicVal = msg
	}
	for _, t := range s.threads {
		if t.state != tDone {
			s.Blocked = append(s.Blocked, fmt.Sprintf("T%d(%s):%s:%s", t.id, t.name, stateNames[t.state], t.label))
		}
	}
	s.aborting = true
	me := s.cur
	for _, t := range s.threads {
		if t != me && t.state != tDone {
			t.wake <- struct{}{}
		}
	}
}

func (s *Sched) spawn(name string, external bool, f func()) *thread {
	t := &thread{id: len(s.threads), name: name, wake: make(chan struct{}, 1), external: external, body: f}
	t.h = uint64(t.id) + 1
	s.threads = append(s.threads, t)
	endMu.Lock()
	s.live++
	endMu.Unlock()
	go s.threadMain(t)
	return t
}

func (s *Sched) runBody(t *thread) {
	defer func() {
		r := recover()
		if r == nil {
			return
		}
		if _, ok := r.(killT); ok {
			return
		}
		if s.aborting {
			return
		}
		s.cur = t
		s.PanicThr = t.id
		if a, ok := r.(AbortSentinel); ok {
			s.end(Aborted, a.Msg)
			return
		}
		s.Stack = trimStack(string(debug.Stack()))
		s.end(Panicked, fmt.Sprint(r))
	}()
	t.body()
}

func (s *Sched) threadMain(t *thread) {
	<-t.wake
	if !s.aborting {
		t.started = true
		s.runBody(t)
	}
	wasAborting := s.aborting
	t.state = tDone
	if !wasAborting {
		s.fp ^= mix(0xE0, uint64(t.id)+1) // a thread exit is a visible state change
		next, ended := s.pick(t, false)
		if !ended {
			s.wakeUp(next)
			s.cur = next
			next.wake <- struct{}{}
		}
	}
	endMu.Lock()
	s.live--
	last := s.live == 0
	endMu.Unlock()
	if last {
		close(s.finished)
	}
}

func trimStack(st string) string {
	lines := strings.Split(st, "\n")
	var out []string
	for i := 0; i < len(lines); i++ {
		l := lines[i]
		if strings.Contains(l, "taskctl/vrt") || strings.HasPrefix(l, "runtime") || strings.HasPrefix(l, "panic(") || strings.Contains(l, "/runtime/") {
			continue
		}
		out = append(out, strings.TrimSpace(l))
		if len(out) > 20 {
			break
		}
	}
	return strings.Join(out, " | ")
}
