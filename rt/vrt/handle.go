package vrt

// Handle is the scheduler-side state of one shim object (mutex, wait group, once, map). It lives
// inside the object, is bound lazily to the scheduler of the current execution and is reset when
// an object survives into a later execution (package-level state of taskctl).
type Handle struct {
	serial uint64
	o      objState
	v      uint64
}

// HashString is exported for the shims.
func HashString(s string) uint64 { return hashString(s) }

func (s *Sched) objID() uint64 {
	t := s.cur
	if t == nil {
		return mix(0xAB, s.newID())
	}
	return mix(uint64(t.id)+0x100, s.newID())
}

// Bind attaches h to the current execution; it reports whether the object is fresh for this
// execution (first use, or left over from an earlier execution and therefore reset).
func Bind(h *Handle) bool {
	s := S
	if s == nil {
		if h.serial != 0 {
			h.serial = 0
			h.v = 0
			return true
		}
		return false
	}
	if h.serial != s.serial {
		h.serial = s.serial
		h.o = objState{id: s.objID()}
		h.v = 0
		return true
	}
	return false
}

// Acquire performs a potentially blocking operation: a scheduling point, then try is applied to
// the object's value until it succeeds; while it cannot succeed the thread is blocked. try must
// be a pure function of its argument apart from assigning the same captured variables on every call.
func Acquire(h *Handle, op string, try func(v uint64) (uint64, bool)) {
	s := S
	if s == nil {
		Bind(h)
		nv, ok := try(h.v)
		if !ok {
			panic("vrt: " + op + " would block outside an exploration")
		}
		h.v = nv
		return
	}
	if s.aborting {
		panic(kill)
	}
	Bind(h)
	s.yield(false)
	for {
		nv, ok := try(h.v)
		if ok {
			h.v = nv
			s.setVal(&h.o, nv)
			s.note(op, nv)
			return
		}
		s.block(op, func() bool { _, ok := try(h.v); return ok })
	}
}

// Update performs a non-blocking atomic operation: a scheduling point, then f.
func Update(h *Handle, op string, f func(v uint64) uint64) {
	s := S
	if s == nil {
		Bind(h)
		h.v = f(h.v)
		return
	}
	if s.aborting {
		panic(kill)
	}
	Bind(h)
	s.yield(false)
	nv := f(h.v)
	h.v = nv
	s.setVal(&h.o, nv)
	s.note(op, nv)
}

// AtomicOp is the scheduling point + state tracking for sync/atomic style operations on addr.
func AtomicOp(addr interface{}, op string, f func() uint64) {
	s := S
	if s == nil {
		f()
		return
	}
	if s.aborting {
		panic(kill)
	}
	o := s.atoms[addr]
	if o == nil {
		o = &objState{id: s.objID()}
		s.atoms[addr] = o
	}
	s.yield(false)
	v := f()
	s.setVal(o, v+1)
	s.note(op, v)
}

// UpdateLocal applies f to an object that only one thread has ever touched: no scheduling point,
// no fingerprint change (thread-confined objects optimisation, see DESIGN.md §2.5). The value is
// tracked so that Publish can bring the fingerprint up to date when a second thread arrives.
func UpdateLocal(h *Handle, f func(v uint64) uint64) {
	if S != nil && S.aborting {
		panic(kill)
	}
	Bind(h)
	h.v = f(h.v)
}

// Publish makes the current value of h visible in the fingerprint (the object became shared).
func Publish(h *Handle) {
	s := S
	if s == nil {
		return
	}
	Bind(h)
	s.setVal(&h.o, h.v)
}
