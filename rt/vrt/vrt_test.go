package vrt_test

import (
	"fmt"
	"testing"
	"time"

	"github.com/taskctl/taskctl/vrt"
	"github.com/taskctl/taskctl/vrt/vatomic"
	"github.com/taskctl/taskctl/vrt/vsync"
)

func TestLostUpdate(t *testing.T) {
	for bound := 0; bound <= 2; bound++ {
		lost := 0
		st := vrt.Explore(vrt.ExploreConfig{Bound: bound}, func() {
			var c int32
			var wg vsync.WaitGroup
			wg.Add(2)
			for i := 0; i < 2; i++ {
				vrt.Go(func() {
					v := vatomic.LoadInt32(&c)
					vatomic.StoreInt32(&c, v+1)
					wg.Done()
				})
			}
			wg.Wait()
			vrt.Emit("final", fmt.Sprint(c))
		}, func(x *vrt.Execution) bool {
			if x.Outcome != vrt.Completed {
				t.Fatalf("outcome %s %s %v", x.Outcome, x.PanicVal, x.Blocked)
			}
			if x.Events[len(x.Events)-1].Arg == "1" {
				lost++
			}
			return true
		})
		t.Logf("bound %d: execs %d states %d lost %d", bound, st.Execs, st.States, lost)
		if bound == 0 && lost != 0 {
			t.Fatal("lost update without preemption")
		}
		if bound >= 1 && lost == 0 {
			t.Fatal("lost update not found")
		}
	}
}

func TestDeadlock(t *testing.T) {
	dl := 0
	st := vrt.Explore(vrt.ExploreConfig{Bound: 1}, func() {
		var a, b vsync.Mutex
		var wg vsync.WaitGroup
		wg.Add(2)
		vrt.Go(func() { a.Lock(); b.Lock(); b.Unlock(); a.Unlock(); wg.Done() })
		vrt.Go(func() { b.Lock(); a.Lock(); a.Unlock(); b.Unlock(); wg.Done() })
		wg.Wait()
	}, func(x *vrt.Execution) bool {
		if x.Outcome == vrt.Deadlock {
			dl++
			// replay must reproduce
			y := vrt.Replay(x.Choices, nil, nil)
			_ = y
		}
		return true
	})
	t.Logf("execs %d deadlocks %d", st.Execs, dl)
	if dl == 0 {
		t.Fatal("deadlock not found")
	}
}

func TestPoller(t *testing.T) {
	st := vrt.Explore(vrt.ExploreConfig{Bound: 2}, func() {
		var flag int32
		var mu vsync.Mutex
		vrt.Go(func() { vatomic.StoreInt32(&flag, 1) })
		for {
			mu.Lock()
			mu.Unlock()
			if vatomic.LoadInt32(&flag) == 1 {
				break
			}
			vrt.Sleep(time.Second)
		}
	}, func(x *vrt.Execution) bool {
		if x.Outcome != vrt.Completed {
			t.Fatalf("outcome %s %v", x.Outcome, x.Blocked)
		}
		return true
	})
	t.Logf("execs %d", st.Execs)
}

func TestLivelock(t *testing.T) {
	st := vrt.Explore(vrt.ExploreConfig{Bound: 0}, func() {
		var flag int32
		for {
			if vatomic.LoadInt32(&flag) == 1 {
				break
			}
			vrt.Sleep(time.Second)
		}
	}, func(x *vrt.Execution) bool {
		if x.Outcome != vrt.Livelock {
			t.Fatalf("outcome %s", x.Outcome)
		}
		return true
	})
	t.Logf("execs %d", st.Execs)
}

func TestChanAndPanic(t *testing.T) {
	pan := 0
	st := vrt.Explore(vrt.ExploreConfig{Bound: 2}, func() {
		done := make(chan struct{}, 1)
		canceling := false
		var mu vsync.RWMutex
		run := func() {
			mu.RLock()
			if canceling {
				vrt.Close(done)
			}
			mu.RUnlock()
		}
		vrt.Go(run)
		vrt.Go(run)
		mu.Lock()
		canceling = true
		mu.Unlock()
		vrt.Recv(done)
	}, func(x *vrt.Execution) bool {
		if x.Outcome == vrt.Panicked {
			pan++
			y := vrt.Replay(x.Choices, nil, nil)
			_ = y
		}
		return true
	})
	t.Logf("execs %d panics %d outcomes %v", st.Execs, pan, st.Outcomes)
	if pan == 0 || st.Outcomes[vrt.Deadlock] == 0 {
		t.Fatal("expected both a double close and a deadlock")
	}
}

func TestParkQuiescence(t *testing.T) {
	st := vrt.Explore(vrt.ExploreConfig{Bound: 0, QuiescentOnly: true}, func() {
		var wg vsync.WaitGroup
		for i := 0; i < 3; i++ {
			i := i
			wg.Add(1)
			vrt.Go(func() {
				vrt.Park(fmt.Sprint("t", i))
				vrt.Emit("end", fmt.Sprint(i))
				wg.Done()
			})
		}
		wg.Wait()
	}, func(x *vrt.Execution) bool { return x.Outcome == vrt.Completed })
	t.Logf("execs %d states %d", st.Execs, st.States)
	if st.Execs != 6 {
		t.Fatalf("expected 3! completion orders, got %d", st.Execs)
	}
}
