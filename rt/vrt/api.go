package vrt

import (
	"fmt"
	"reflect"
	"runtime/debug"
	"sort"
	"time"
)

// Go registers f as a new thread. It replaces every `go` statement of the instrumented packages
// (arguments are evaluated eagerly by the rewritten call site).
func Go(f func()) {
	s := S
	if s == nil {
		go f()
		return
	}
	if s.aborting {
		return
	}
	s.note("go", uint64(len(s.threads)))
	s.fp ^= mix(0x60, uint64(len(s.threads))+1)
	s.spawn("go", false, f)
	s.yield(false)
}

// GoNamed is used by harness drivers.
func GoNamed(name string, f func()) {
	s := S
	if s.aborting {
		return
	}
	s.fp ^= mix(0x60, uint64(len(s.threads))+1)
	s.spawn(name, false, f)
}

// GoExternal registers a thread that models an external event (a Cancel from the user, a
// signal): switching to it for its first step is free, whatever the running thread is doing.
func GoExternal(name string, f func()) {
	s := S
	if s.aborting {
		return
	}
	s.fp ^= mix(0x60, uint64(len(s.threads))+1)
	s.spawn(name, true, f)
}

// After replaces time.After. Durations are not modelled; a timer behaves like the polling Sleep: it is
// delivered by a helper thread that sleeps first, i.e. it fires once the shared state differs from what
// it was when the timer was started (or when nothing else can happen) - waiting on a timer is visible
// waiting, not a source of unbounded executions.
func After(d time.Duration) <-chan time.Time {
	c := make(chan time.Time, 1)
	if S == nil {
		go func() { time.Sleep(d); c <- time.Now() }()
		return c
	}
	GoNamed("timer", func() {
		Sleep(d)
		Send(c, time.Time{})
	})
	return c
}

// Point is a scheduling point.
func Point() {
	s := S
	if s == nil {
		return
	}
	if s.aborting {
		panic(kill)
	}
	s.yield(false)
}

// Sleep replaces time.Sleep: a yield. The sleeper becomes runnable again once the shared state
// differs from what it was when the sleeper's current pass began (visible waiting).
func Sleep(d time.Duration) {
	s := S
	if s == nil {
		return
	}
	if s.aborting {
		panic(kill)
	}
	me := s.cur
	me.state = tSleeping
	me.label = "sleep"
	s.note("sleep", 0)
	s.yield(true)
}

// Loop is the token of one activation of a polling loop whose iterations carry no thread-local
// state from one Sleep to the next (the instrumenter checks that the loop body assigns no
// variable declared outside it). At such a Sleep the thread's local state is what it was at the
// previous Sleep of the same activation, so its history hash is reset: states that differ only
// in what earlier passes observed are merged by state-key pruning.
type Loop struct {
	base uint64
	set  bool
}

// LoopEnter starts a loop activation.
func LoopEnter() *Loop { return &Loop{} }

// SleepIn is Sleep at a clean pass boundary of loop l.
func SleepIn(l *Loop, d time.Duration) {
	s := S
	if s == nil {
		return
	}
	if s.aborting {
		panic(kill)
	}
	me := s.cur
	if !NoLoopReset {
		if !l.set {
			l.base, l.set = me.h, true
		} else {
			me.h = l.base
		}
	}
	me.state = tSleeping
	me.label = "sleep"
	s.note("sleep", 0)
	s.yield(true)
}

// NoLoopReset disables the history reset of SleepIn (used by the agreement self-check).
var NoLoopReset bool

// Park parks the running thread at an environment-controlled wait ("a command is running").
// A parked thread is always enabled; releasing it is a free choice.
func Park(label string) {
	s := S
	if s == nil {
		return
	}
	if s.aborting {
		panic(kill)
	}
	me := s.cur
	me.state = tParked
	me.label = label
	s.fp ^= mix(0x70, hashString(label)+uint64(me.id))
	s.yield(true)
	s.fp ^= mix(0x70, hashString(label)+uint64(me.id))
	me.label = ""
}

// block waits until pred holds. pred must only read shim state.
// Debug makes blocked threads record where they block (used by replays).
var Debug bool

func (s *Sched) block(label string, pred func() bool) {
	me := s.cur
	for !pred() {
		me.state = tBlocked
		me.pred = pred
		me.label = label
		if Debug {
			me.label = label + " @ " + trimStack(string(debug.Stack()))
		}
		s.yield(false)
	}
	me.label = ""
}

// Emit appends an observable event to the log of the execution.
func Emit(kind, arg string) {
	s := S
	if s == nil || s.aborting {
		return
	}
	id := -1
	if s.cur != nil {
		id = s.cur.id
	}
	s.Events = append(s.Events, Event{T: id, Kind: kind, Arg: arg})
	s.note(kind, hashString(arg))
}

// Fail records an oracle failure detected inside the execution.
func Fail(format string, a ...interface{}) {
	s := S
	if s == nil {
		return
	}
	s.Failures = append(s.Failures, fmt.Sprintf(format, a...))
}

// ExitProcess ends the execution the way a process exit does: the calling thread (the program's main
// goroutine) is done, every other thread is abandoned wherever it is, the outcome is Completed.
// Threads that were still alive are listed in Blocked for the record.
func ExitProcess() {
	s := S
	if s == nil {
		return
	}
	if s.aborting {
		panic(kill)
	}
	s.end(Completed, "")
	panic(kill)
}

// Choose is an environment (data) choice among n alternatives; all are free.
func Choose(n int) int {
	s := S
	if s == nil || n <= 1 {
		return 0
	}
	if s.aborting {
		panic(kill)
	}
	c, ok := s.nextChoice(n)
	if !ok {
		panic(kill)
	}
	s.Points = append(s.Points, PointRec{N: n, Free: ^uint64(0), Data: true, Key: s.stateKey()})
	s.note("choose", uint64(c))
	return c
}

// Touch marks an access to a plain (unsynchronised) shared field: a scheduling point, and for
// writes a state change.
func Touch(name string, write bool) {
	s := S
	if s == nil {
		return
	}
	// A read of a plain field that nobody has written in this execution is independent of
	// everything that happened so far: it is not a scheduling point (the writer, if one comes
	// later, can still be ordered before this read at the reader's previous point).
	if !write && s.fields[name] == nil {
		if s.aborting {
			panic(kill)
		}
		return
	}
	s.yield(false)
	if write {
		o := s.fields[name]
		if o == nil {
			o = &objState{id: mix(0xF1, hashString(name))}
			s.fields[name] = o
		}
		s.setVal(o, o.val+1)
		s.note("w:"+name, o.val)
	} else {
		s.note("r:"+name, 0)
	}
}

// Enter / Exit are the probes placed at entry and exit of selected functions.
func Enter(name string, args ...string) {
	s := S
	if s == nil {
		return
	}
	a := ""
	for i, x := range args {
		if i > 0 {
			a += "|"
		}
		a += x
	}
	s.yield(false)
	Emit("enter:"+name, a)
}

// Exit is the counterpart of Enter.
func Exit(name string, args ...string) {
	s := S
	if s == nil || s.aborting {
		return
	}
	a := ""
	for i, x := range args {
		if i > 0 {
			a += "|"
		}
		a += x
	}
	Emit("exit:"+name, a)
}

// Keys returns the keys of map m in sorted order (by their printed form). Every `range` over a
// map in the instrumented packages iterates over Keys(m) so that map order is owned.
func Keys(m interface{}) []reflect.Value {
	v := reflect.ValueOf(m)
	if v.Kind() != reflect.Map {
		panic("vrt.Keys: not a map")
	}
	ks := v.MapKeys()
	sort.Slice(ks, func(i, j int) bool { return fmt.Sprint(ks[i].Interface()) < fmt.Sprint(ks[j].Interface()) })
	return ks
}

// Aborting reports whether the current execution is being torn down.
func Aborting() bool { return S != nil && S.aborting }

// ThreadID returns the id of the running thread (-1 outside an exploration).
func ThreadID() int {
	if S == nil || S.cur == nil {
		return -1
	}
	return S.cur.id
}

// Execution is the record of one run.
type Execution struct {
	Choices     []int
	Points      []PointRec
	Events      []Event
	Outcome     string
	PanicVal    string
	PanicThr    int
	Stack       string
	Blocked     []string
	Failures    []string
	Transitions int
	QuiescN     int
}

// Run executes body as thread 0 under a fresh scheduler, replaying prefix and taking choice 0
// afterwards. setup (optional) runs before thread 0 starts, with S already set.
func Run(prefix []int, setup func(s *Sched), body func()) *Execution {
	s := newSched(prefix)
	S = s
	if setup != nil {
		setup(s)
	}
	t := s.spawn("main", false, body)
	s.cur = t
	t.wake <- struct{}{}
	<-s.finished
	S = nil
	return &Execution{Choices: s.Choices, Points: s.Points, Events: s.Events, Outcome: s.Outcome, PanicVal: s.PanicVal,
		PanicThr: s.PanicThr, Stack: s.Stack, Blocked: s.Blocked, Failures: s.Failures, Transitions: s.Transitions, QuiescN: s.QuiescN}
}

// Entry is one key/value pair of a map snapshot.
type Entry struct{ K, V reflect.Value }

// Entries snapshots map m in sorted key order (by printed form). Every `range` over a map in the
// instrumented packages iterates over Entries(m), so map iteration order is owned.
func Entries(m interface{}) []Entry {
	v := reflect.ValueOf(m)
	ks := Keys(m)
	out := make([]Entry, len(ks))
	for i, k := range ks {
		out[i] = Entry{K: k, V: v.MapIndex(k)}
	}
	return out
}
