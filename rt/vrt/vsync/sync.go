// Package vsync mirrors the part of package sync that taskctl uses; every operation is a
// scheduling point of the vrt scheduler and blocking is visible to it.
package vsync

import (
	"fmt"
	"sort"

	"github.com/taskctl/taskctl/vrt"
)

// Locker mirrors sync.Locker.
type Locker interface {
	Lock()
	Unlock()
}

// Mutex mirrors sync.Mutex.
type Mutex struct {
	h vrt.Handle
	// state: 0 unlocked, 1 locked
}

func (m *Mutex) Lock() {
	vrt.Acquire(&m.h, "Mutex.Lock", func(v uint64) (uint64, bool) {
		if v == 0 {
			return 1, true
		}
		return v, false
	})
}

func (m *Mutex) Unlock() {
	vrt.Update(&m.h, "Mutex.Unlock", func(v uint64) uint64 {
		if v != 1 {
			panic("sync: unlock of unlocked mutex")
		}
		return 0
	})
}

func (m *Mutex) TryLock() bool {
	ok := false
	vrt.Update(&m.h, "Mutex.TryLock", func(v uint64) uint64 {
		if v == 0 {
			ok = true
			return 1
		}
		return v
	})
	return ok
}

// RWMutex mirrors sync.RWMutex including its writer preference: a writer that is waiting blocks every
// new reader (which is what makes a recursive read lock a deadlock). state: bits 0-15 active readers,
// bits 16-31 writers that have announced themselves and wait, bit 32 writer holds the lock.
type RWMutex struct {
	h vrt.Handle
}

const (
	writer      = uint64(1) << 32
	pendingUnit = uint64(1) << 16
	readerMask  = pendingUnit - 1
	pendingMask = (writer - 1) &^ readerMask
)

func (m *RWMutex) Lock() {
	acquired := false
	vrt.Update(&m.h, "RWMutex.Lock", func(v uint64) uint64 {
		if v == 0 {
			acquired = true
			return writer
		}
		return v + pendingUnit // announce: from now on new readers wait
	})
	if acquired {
		return
	}
	vrt.Acquire(&m.h, "RWMutex.Lock(wait)", func(v uint64) (uint64, bool) {
		if v&writer == 0 && v&readerMask == 0 {
			return (v - pendingUnit) | writer, true
		}
		return v, false
	})
}

func (m *RWMutex) Unlock() {
	vrt.Update(&m.h, "RWMutex.Unlock", func(v uint64) uint64 {
		if v&writer == 0 {
			panic("sync: Unlock of unlocked RWMutex")
		}
		return v &^ writer
	})
}

func (m *RWMutex) RLock() {
	vrt.Acquire(&m.h, "RWMutex.RLock", func(v uint64) (uint64, bool) {
		if v&writer == 0 && v&pendingMask == 0 {
			return v + 1, true
		}
		return v, false
	})
}

func (m *RWMutex) RUnlock() {
	vrt.Update(&m.h, "RWMutex.RUnlock", func(v uint64) uint64 {
		if v&readerMask == 0 {
			panic("sync: RUnlock of unlocked RWMutex")
		}
		return v - 1
	})
}

// RLocker mirrors (*sync.RWMutex).RLocker.
func (m *RWMutex) RLocker() Locker { return (*rlocker)(m) }

type rlocker RWMutex

func (r *rlocker) Lock()   { (*RWMutex)(r).RLock() }
func (r *rlocker) Unlock() { (*RWMutex)(r).RUnlock() }

// WaitGroup mirrors sync.WaitGroup.
type WaitGroup struct {
	h vrt.Handle
}

func (wg *WaitGroup) Add(delta int) {
	vrt.Update(&wg.h, "WaitGroup.Add", func(v uint64) uint64 {
		n := int64(v) + int64(delta)
		if n < 0 {
			panic("sync: negative WaitGroup counter")
		}
		return uint64(n)
	})
}

func (wg *WaitGroup) Done() { wg.Add(-1) }

func (wg *WaitGroup) Wait() {
	vrt.Acquire(&wg.h, "WaitGroup.Wait", func(v uint64) (uint64, bool) { return v, v == 0 })
}

// Once mirrors sync.Once. state: 0 fresh, 1 running, 2 done.
type Once struct {
	h vrt.Handle
}

func (o *Once) Do(f func()) {
	run := false
	vrt.Acquire(&o.h, "Once.Do", func(v uint64) (uint64, bool) {
		run = v == 0
		switch v {
		case 0:
			return 1, true
		case 2:
			return 2, true
		}
		return v, false
	})
	if run {
		defer vrt.Update(&o.h, "Once.done", func(uint64) uint64 { return 2 })
		f()
	}
}

// Map mirrors sync.Map: a plain map; every operation is atomic and a scheduling point.
type Map struct {
	h      vrt.Handle
	m      map[interface{}]interface{}
	owner  int // id+2 of the only thread that has touched the map so far
	shared bool
}

// LocalMaps enables the thread-confined optimisation: operations on a map that only one thread
// has ever touched are not scheduling points.
var LocalMaps = true

// op runs f as an atomic operation on the map; it is a scheduling point once the map is shared.
func (m *Map) op(name string, f func(v uint64) uint64) {
	if vrt.Bind(&m.h) || m.m == nil {
		m.m = make(map[interface{}]interface{})
		m.owner, m.shared = 0, false
	}
	if LocalMaps && !m.shared {
		me := vrt.ThreadID() + 2
		if m.owner == 0 {
			m.owner = me
		}
		if m.owner == me {
			vrt.UpdateLocal(&m.h, f)
			return
		}
		m.shared = true
		vrt.Publish(&m.h)
	}
	vrt.Update(&m.h, name, f)
}

func hv(k, v interface{}) uint64 {
	return vrt.HashString(fmt.Sprintf("%T:%v=%T:%v", k, k, v, v))
}

func (m *Map) Load(key interface{}) (value interface{}, ok bool) {
	m.op("Map.Load", func(v uint64) uint64 {
		value, ok = m.m[key]
		return v
	})
	return
}

func (m *Map) Store(key, value interface{}) {
	m.op("Map.Store", func(v uint64) uint64 {
		if old, ok := m.m[key]; ok {
			v ^= hv(key, old)
		}
		m.m[key] = value
		return v ^ hv(key, value)
	})
}

func (m *Map) LoadOrStore(key, value interface{}) (actual interface{}, loaded bool) {
	m.op("Map.LoadOrStore", func(v uint64) uint64 {
		if old, ok := m.m[key]; ok {
			actual, loaded = old, true
			return v
		}
		m.m[key] = value
		actual = value
		return v ^ hv(key, value)
	})
	return
}

func (m *Map) Delete(key interface{}) {
	m.op("Map.Delete", func(v uint64) uint64 {
		if old, ok := m.m[key]; ok {
			v ^= hv(key, old)
			delete(m.m, key)
		}
		return v
	})
}

func (m *Map) LoadAndDelete(key interface{}) (value interface{}, loaded bool) {
	m.op("Map.LoadAndDelete", func(v uint64) uint64 {
		if old, ok := m.m[key]; ok {
			value, loaded = old, true
			v ^= hv(key, old)
			delete(m.m, key)
		}
		return v
	})
	return
}

func (m *Map) Swap(key, value interface{}) (previous interface{}, loaded bool) {
	m.op("Map.Swap", func(v uint64) uint64 {
		if old, ok := m.m[key]; ok {
			previous, loaded = old, true
			v ^= hv(key, old)
		}
		m.m[key] = value
		return v ^ hv(key, value)
	})
	return
}

func (m *Map) CompareAndSwap(key, old, new interface{}) (swapped bool) {
	m.op("Map.CompareAndSwap", func(v uint64) uint64 {
		if cur, ok := m.m[key]; ok && cur == old {
			m.m[key] = new
			swapped = true
			return v ^ hv(key, cur) ^ hv(key, new)
		}
		return v
	})
	return
}

func (m *Map) CompareAndDelete(key, old interface{}) (deleted bool) {
	m.op("Map.CompareAndDelete", func(v uint64) uint64 {
		if cur, ok := m.m[key]; ok && cur == old {
			delete(m.m, key)
			deleted = true
			return v ^ hv(key, cur)
		}
		return v
	})
	return
}

// OnceFunc mirrors sync.OnceFunc.
func OnceFunc(f func()) func() {
	var o Once
	return func() { o.Do(f) }
}

// Range snapshots the keys (sorted by printed form: map order is owned) at one scheduling point
// and calls f for each entry still present.
func (m *Map) Range(f func(key, value interface{}) bool) {
	var keys []interface{}
	m.op("Map.Range", func(v uint64) uint64 {
		for k := range m.m {
			keys = append(keys, k)
		}
		return v
	})
	sort.Slice(keys, func(i, j int) bool { return fmt.Sprint(keys[i]) < fmt.Sprint(keys[j]) })
	for _, k := range keys {
		val, ok := m.m[k]
		if !ok {
			continue
		}
		if !f(k, val) {
			break
		}
	}
}

// Pool mirrors sync.Pool: a LIFO free list shared by all threads; Get and Put are scheduling
// points (the real pool may hand an item that was just Put to any other goroutine).
type Pool struct {
	New   func() interface{}
	h     vrt.Handle
	items []interface{}
}

func (p *Pool) Get() interface{} {
	var x interface{}
	if vrt.Bind(&p.h) {
		p.items = nil
	}
	vrt.Update(&p.h, "Pool.Get", func(v uint64) uint64 {
		if n := len(p.items); n > 0 {
			x = p.items[n-1]
			p.items = p.items[:n-1]
		}
		return uint64(len(p.items))
	})
	if x == nil && p.New != nil {
		x = p.New()
	}
	return x
}

func (p *Pool) Put(x interface{}) {
	if x == nil {
		return
	}
	if vrt.Bind(&p.h) {
		p.items = nil
	}
	vrt.Update(&p.h, "Pool.Put", func(v uint64) uint64 {
		p.items = append(p.items, x)
		return uint64(len(p.items))
	})
}

// Cond mirrors sync.Cond. Signal wakes every waiter (an over-approximation of the wake-ups the
// real Cond may deliver to callers that, as documented, re-check their condition in a loop).
type Cond struct {
	L Locker
	h vrt.Handle
}

func NewCond(l Locker) *Cond { return &Cond{L: l} }

func (c *Cond) Wait() {
	vrt.Bind(&c.h)
	var my uint64
	vrt.Update(&c.h, "Cond.enter", func(v uint64) uint64 { my = v; return v })
	c.L.Unlock()
	vrt.Acquire(&c.h, "Cond.Wait", func(v uint64) (uint64, bool) { return v, v != my })
	c.L.Lock()
}

func (c *Cond) Signal()    { vrt.Update(&c.h, "Cond.Signal", func(v uint64) uint64 { return v + 1 }) }
func (c *Cond) Broadcast() { vrt.Update(&c.h, "Cond.Broadcast", func(v uint64) uint64 { return v + 1 }) }
