package vrt_test

import (
	"fmt"
	"testing"
	"time"

	"github.com/taskctl/taskctl/vrt"
	"github.com/taskctl/taskctl/vrt/vatomic"
	"github.com/taskctl/taskctl/vrt/vsync"
)

func TestPollParked(t *testing.T) {
	body := func() {
		var wg vsync.WaitGroup
		st := make([]int32, 3)
		launched := make([]bool, 3)
		for {
			done := true
			for i := range st {
				if vatomic.LoadInt32(&st[i]) != 2 {
					done = false
				}
			}
			if done {
				break
			}
			for i := range st {
				i := i
				if !launched[i] {
					launched[i] = true
					wg.Add(1)
					vrt.Go(func() {
						vrt.Park(fmt.Sprint("t", i))
						vrt.Emit("end", fmt.Sprint(i))
						vatomic.StoreInt32(&st[i], 2)
						wg.Done()
					})
				}
			}
			vrt.Sleep(time.Second)
		}
		wg.Wait()
	}
	x := vrt.Run(nil, nil, body)
	seen := map[uint64]int{}
	for i, p := range x.Points {
		if j, ok := seen[p.Key]; ok {
			t.Logf("point %d repeats key of point %d (N=%d free=%b)", i, j, p.N, p.Free)
		}
		seen[p.Key] = i
	}
	t.Logf("points %d outcome %s", len(x.Points), x.Outcome)
	for _, prune := range []bool{false, true} {
		orders := map[string]bool{}
		st := vrt.Explore(vrt.ExploreConfig{Bound: 0, Prune: prune}, body, func(x *vrt.Execution) bool {
			o := ""
			for _, e := range x.Events {
				o += e.Arg
			}
			orders[o] = true
			return x.Outcome == vrt.Completed
		})
		t.Logf("prune=%v execs %d orders %d pruned %d", prune, st.Execs, len(orders), st.Pruned)
		if len(orders) != 6 {
			t.Fatalf("expected 6 completion orders")
		}
	}
}

// TestPruneAgreement: cost-aware state pruning must not lose any observable result.
func TestPruneAgreement(t *testing.T) {
	progs := map[string]func(){
		"lostupdate": func() {
			var c int32
			var wg vsync.WaitGroup
			wg.Add(3)
			for i := 0; i < 3; i++ {
				vrt.Go(func() {
					v := vatomic.LoadInt32(&c)
					vatomic.StoreInt32(&c, v+1)
					wg.Done()
				})
			}
			wg.Wait()
			vrt.Emit("final", fmt.Sprint(c))
		},
		"cancel": func() {
			done := make(chan struct{}, 1)
			canceling := false
			var mu vsync.RWMutex
			run := func() {
				mu.RLock()
				if canceling {
					vrt.Close(done)
				}
				mu.RUnlock()
			}
			vrt.Go(run)
			vrt.Go(run)
			mu.Lock()
			canceling = true
			mu.Unlock()
			vrt.Recv(done)
		},
		"poll": func() {
			var a, b int32
			vrt.Go(func() { vatomic.StoreInt32(&a, 1); vrt.Park("x"); vatomic.StoreInt32(&a, 2) })
			vrt.Go(func() { vatomic.StoreInt32(&b, 1); vrt.Park("y"); vatomic.StoreInt32(&b, 2) })
			for {
				x, y := vatomic.LoadInt32(&a), vatomic.LoadInt32(&b)
				vrt.Emit("saw", fmt.Sprint(x, y))
				if x == 2 && y == 2 {
					break
				}
				vrt.Sleep(time.Second)
			}
		},
	}
	for name, body := range progs {
		for bound := 0; bound <= 2; bound++ {
			var sets [2]map[string]bool
			var execs [2]int64
			for k, prune := range []bool{false, true} {
				sets[k] = map[string]bool{}
				st := vrt.Explore(vrt.ExploreConfig{Bound: bound, Prune: prune}, body, func(x *vrt.Execution) bool {
					o := x.Outcome + ":" + x.PanicVal
					for _, e := range x.Events {
						o += " " + e.String()
					}
					sets[k][o] = true
					return true
				})
				execs[k] = st.Execs
			}
			for o := range sets[0] {
				if !sets[1][o] {
					t.Errorf("%s bound %d: pruned search lost observation %q", name, bound, o)
				}
			}
			t.Logf("%s bound %d: %d vs %d executions, %d vs %d distinct observations", name, bound, execs[0], execs[1], len(sets[0]), len(sets[1]))
		}
	}
}
