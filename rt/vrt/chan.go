package vrt

import (
	"reflect"
)

// chanState is the scheduler-side state of one channel of the current execution. The channel
// itself is the real Go channel (buffered operations use the real buffer through reflect's
// non-blocking TrySend/TryRecv); unbuffered rendezvous between registered threads is modelled by
// a queue of pending senders.
type chanState struct {
	o       objState
	ch      reflect.Value // keeps the channel alive: no address reuse within an execution
	recv    reflect.Value // a view of the channel that permits receiving (the code under test may hold directional views)
	send    reflect.Value // a view that permits sending
	closed  bool
	pending []*pendingSend
	ver     uint64
}

type pendingSend struct {
	v     reflect.Value
	taken bool
}

func (s *Sched) chanOf(c interface{}) (*chanState, reflect.Value) {
	v := reflect.ValueOf(c)
	if v.Kind() != reflect.Chan {
		panic("vrt: not a channel")
	}
	if v.IsNil() {
		return nil, v
	}
	p := v.Pointer()
	cs := s.chans[p]
	if cs == nil {
		cs = &chanState{o: objState{id: s.objID()}, ch: v}
		s.chans[p] = cs
	}
	d := v.Type().ChanDir()
	if d&reflect.RecvDir != 0 && !cs.recv.IsValid() {
		cs.recv = v
	}
	if d&reflect.SendDir != 0 && !cs.send.IsValid() {
		cs.send = v
	}
	return cs, v
}

func (s *Sched) chanChanged(cs *chanState) {
	cs.ver++
	s.setVal(&cs.o, cs.ver)
}

// closedProbe reports whether the (empty) channel is closed without consuming anything.
func closedProbe(cs *chanState) bool {
	if cs.closed {
		return true
	}
	if cs.ch.Len() > 0 || !cs.recv.IsValid() {
		return false // (no receiving view seen yet: only a registered Close could have closed it, and that sets cs.closed)
	}
	// A select with a default on an empty open channel takes the default; on a closed channel it
	// takes the receive case with ok=false. Nothing can be consumed because no registered thread
	// is blocked in a real send (sends of registered threads go through Send).
	chosen, _, ok := reflect.Select([]reflect.SelectCase{
		{Dir: reflect.SelectRecv, Chan: cs.recv},
		{Dir: reflect.SelectDefault},
	})
	if chosen == 0 && !ok {
		cs.closed = true
		return true
	}
	if chosen == 0 && ok {
		panic("vrt: closedProbe consumed a value (unregistered sender on an instrumented channel)")
	}
	return false
}

func recvReady(cs *chanState) bool {
	if cs == nil {
		return false
	}
	return cs.ch.Len() > 0 || len(cs.pending) > 0 || closedProbe(cs)
}

func (s *Sched) tryRecv(cs *chanState) (reflect.Value, bool, bool) {
	if cs.ch.Len() > 0 {
		x, ok := cs.recv.TryRecv()
		s.chanChanged(cs)
		return x, ok, true
	}
	if len(cs.pending) > 0 {
		p := cs.pending[0]
		cs.pending = cs.pending[1:]
		p.taken = true
		s.chanChanged(cs)
		return p.v, true, true
	}
	if closedProbe(cs) {
		return reflect.Zero(cs.ch.Type().Elem()), false, true
	}
	return reflect.Value{}, false, false
}

// RecvOK replaces `v, ok := <-c`.
func RecvOK(c interface{}) (interface{}, bool) {
	s := S
	if s == nil {
		x, ok := reflect.ValueOf(c).Recv()
		return x.Interface(), ok
	}
	if s.aborting {
		panic(kill)
	}
	cs, _ := s.chanOf(c)
	s.yield(false)
	for {
		if cs != nil {
			if x, ok, got := s.tryRecv(cs); got {
				s.note("recv", boolU(ok))
				return x.Interface(), ok
			}
		}
		s.block("chan receive", func() bool { return recvReady(cs) })
	}
}

// Recv replaces `<-c` used as a statement or as a single-valued expression.
func Recv(c interface{}) interface{} {
	v, _ := RecvOK(c)
	return v
}

func boolU(b bool) uint64 {
	if b {
		return 1
	}
	return 0
}

// Send replaces `c <- v`.
func Send(c interface{}, val interface{}) {
	s := S
	cv := reflect.ValueOf(c)
	var x reflect.Value
	if val == nil {
		x = reflect.Zero(cv.Type().Elem())
	} else {
		x = reflect.ValueOf(val)
		if x.Type() != cv.Type().Elem() {
			x = x.Convert(cv.Type().Elem())
		}
	}
	if s == nil {
		cv.Send(x)
		return
	}
	if s.aborting {
		panic(kill)
	}
	cs, _ := s.chanOf(c)
	s.yield(false)
	if cs == nil {
		s.block("send on nil channel", func() bool { return false })
	}
	if closedProbe(cs) {
		panic("send on closed channel")
	}
	if cs.ch.Cap() > 0 {
		for {
			if cs.ch.Len() < cs.ch.Cap() {
				if !cs.send.TrySend(x) {
					panic("vrt: TrySend failed on a non-full channel")
				}
				s.chanChanged(cs)
				s.note("send", 0)
				return
			}
			s.block("chan send", func() bool { return cs.ch.Len() < cs.ch.Cap() || cs.closed })
			if cs.closed {
				panic("send on closed channel")
			}
		}
	}
	p := &pendingSend{v: x}
	cs.pending = append(cs.pending, p)
	s.chanChanged(cs)
	s.block("chan send (unbuffered)", func() bool { return p.taken || cs.closed })
	if !p.taken {
		panic("send on closed channel")
	}
	s.note("send", 0)
}

// Close replaces close(c).
func Close(c interface{}) {
	s := S
	if s == nil {
		reflect.ValueOf(c).Close()
		return
	}
	if s.aborting {
		panic(kill)
	}
	cs, v := s.chanOf(c)
	s.yield(false)
	if cs == nil {
		panic("close of nil channel")
	}
	v.Close() // panics with "close of closed channel" exactly like the builtin
	cs.closed = true
	s.chanChanged(cs)
	s.note("close", 0)
}

// Case is one communication clause of a rewritten select statement.
type Case struct {
	Send bool
	Ch   interface{}
	Val  interface{}
}

// Select replaces a select statement. It returns the index of the clause that fired (-1 for
// default), and for receive clauses the value and ok. When several clauses are ready the choice
// is an environment choice (Go picks one at random).
func Select(hasDefault bool, cases []Case) (int, interface{}, bool) {
	s := S
	if s == nil {
		panic("vrt.Select outside an exploration")
	}
	if s.aborting {
		panic(kill)
	}
	css := make([]*chanState, len(cases))
	for i, c := range cases {
		css[i], _ = s.chanOf(c.Ch)
	}
	s.yield(false)
	ready := func() []int {
		var r []int
		for i, c := range cases {
			cs := css[i]
			if cs == nil {
				continue
			}
			if c.Send {
				if cs.closed || (cs.ch.Cap() > 0 && cs.ch.Len() < cs.ch.Cap()) {
					r = append(r, i)
				}
			} else if recvReady(cs) {
				r = append(r, i)
			}
		}
		return r
	}
	for {
		r := ready()
		if len(r) == 0 {
			if hasDefault {
				s.note("select", ^uint64(0))
				return -1, nil, false
			}
			s.block("select", func() bool { return len(ready()) > 0 })
			continue
		}
		i := r[0]
		if len(r) > 1 {
			i = r[Choose(len(r))]
		}
		s.note("select", uint64(i))
		if cases[i].Send {
			cs := css[i]
			if cs.closed {
				panic("send on closed channel")
			}
			x := reflect.ValueOf(cases[i].Val)
			if !cs.send.TrySend(x) {
				panic("vrt: TrySend failed in select")
			}
			s.chanChanged(cs)
			return i, nil, false
		}
		x, ok, _ := s.tryRecv(css[i])
		return i, x.Interface(), ok
	}
}
