package vrt

import (
	"time"
)

// ExploreConfig bounds one exploration.
type ExploreConfig struct {
	Bound         int       // preemption bound (scheduling deviations that cost); <0: unbounded
	QuiescentOnly bool      // branch only at quiescent points (explicit-state search over environment choices)
	Prune         bool      // state-key pruning (used for the unbounded search)
	MaxExecs      int64     // cap (0 = none); hitting it clears Exhaustive
	Deadline      time.Time // zero = none
	Setup         func(s *Sched)
	// ShardI/ShardN split one exploration over processes: shard i explores the subtrees of the
	// root execution's alternatives k with k%ShardN==i (the root itself is counted by shard 0).
	ShardI, ShardN int
}

// Stats is what an exploration covered.
type Stats struct {
	Execs       int64
	Transitions int64
	States      int64 // distinct state keys seen at recorded points
	MaxDepth    int
	MaxPoints   int
	Exhaustive  bool
	Outcomes    map[string]int64
	Capped      string
	Pruned      int64
}

// Explore enumerates every execution of body whose choice sequence deviates from the default
// (choice 0 everywhere) with a total cost of at most cfg.Bound. check is called for every
// execution; returning false stops the exploration (first violation).
func Explore(cfg ExploreConfig, body func(), check func(x *Execution) bool) Stats {
	st := Stats{Exhaustive: true, Outcomes: map[string]int64{}}
	type visit struct {
		cost int16
		exec int64
	}
	seen := make(map[uint64]visit) // state key -> smallest cost with which its alternatives were scheduled, and by which execution
	type item struct {
		prefix []int
		cost   int
	}
	stack := []item{{nil, 0}}
	for len(stack) > 0 {
		it := stack[len(stack)-1]
		stack = stack[:len(stack)-1]
		if cfg.MaxExecs > 0 && st.Execs >= cfg.MaxExecs {
			st.Exhaustive = false
			st.Capped = "max executions"
			break
		}
		if !cfg.Deadline.IsZero() && st.Execs%64 == 0 && time.Now().After(cfg.Deadline) {
			st.Exhaustive = false
			st.Capped = "deadline"
			break
		}
		x := Run(it.prefix, cfg.Setup, body)
		isRoot := len(it.prefix) == 0 && cfg.ShardN > 1
		if !isRoot || cfg.ShardI == 0 {
			st.Execs++
		}
		st.Transitions += int64(x.Transitions)
		st.Outcomes[x.Outcome]++
		if len(x.Points) > st.MaxPoints {
			st.MaxPoints = len(x.Points)
		}
		if !check(x) {
			st.Exhaustive = false
			st.Capped = "stopped at first violation"
			break
		}
		if x.Outcome == Diverged {
			st.Exhaustive = false
			st.Capped = "diverged"
			break
		}
		cost := 0
		pruned := false
		var push []item
		for i := 0; i < len(x.Points); i++ {
			p := x.Points[i]
			if i >= len(it.prefix) {
				// Cost-aware state pruning: a state whose alternatives were already scheduled with at
				// least as much remaining budget has nothing new below it.
				skip := false
				if v0, ok := seen[p.Key]; !ok || int(v0.cost) > cost {
					seen[p.Key] = visit{int16(cost), st.Execs}
				} else if cfg.Prune {
					if v0.exec == st.Execs {
						// same state as an earlier point of this very execution (nothing happened in
						// between): its alternatives are already scheduled there
						skip = true
					} else {
						pruned = true
					}
					st.Pruned++
				}
				if !pruned && !skip && (!cfg.QuiescentOnly || p.Quiescent || p.Data) {
					for alt := 1; alt < p.N; alt++ {
						c := cost
						if p.Free&(1<<uint(alt)) == 0 {
							c++
						}
						if cfg.Bound >= 0 && c > cfg.Bound {
							continue
						}
						np := make([]int, i+1)
						copy(np, x.Choices[:i])
						np[i] = alt
						push = append(push, item{np, c})
					}
				}
			}
			// cost of the choice actually taken at i (only non-zero inside the prefix)
			if x.Choices[i] != 0 && p.Free&(1<<uint(x.Choices[i])) == 0 {
				cost++
			}
		}
		if len(x.Points) > st.MaxDepth {
			st.MaxDepth = len(x.Points)
		}
		// push in reverse so that the earliest deviation is explored first
		for i := len(push) - 1; i >= 0; i-- {
			if isRoot && i%cfg.ShardN != cfg.ShardI {
				continue
			}
			stack = append(stack, push[i])
		}
	}
	st.States = int64(len(seen))
	return st
}

// Replay runs one recorded choice list.
func Replay(choices []int, setup func(s *Sched), body func()) *Execution {
	return Run(choices, setup, body)
}
