// Package vatomic mirrors the part of sync/atomic that taskctl uses.
package vatomic

import "github.com/taskctl/taskctl/vrt"

func LoadInt32(addr *int32) int32 {
	vrt.AtomicOp(addr, "LoadInt32", func() uint64 { return uint64(uint32(*addr)) })
	return *addr
}

func StoreInt32(addr *int32, val int32) {
	vrt.AtomicOp(addr, "StoreInt32", func() uint64 { *addr = val; return uint64(uint32(val)) })
}

func AddInt32(addr *int32, delta int32) (new int32) {
	vrt.AtomicOp(addr, "AddInt32", func() uint64 { *addr += delta; new = *addr; return uint64(uint32(*addr)) })
	return
}

func SwapInt32(addr *int32, n int32) (old int32) {
	vrt.AtomicOp(addr, "SwapInt32", func() uint64 { old = *addr; *addr = n; return uint64(uint32(n)) })
	return
}

func CompareAndSwapInt32(addr *int32, old, new int32) (swapped bool) {
	vrt.AtomicOp(addr, "CompareAndSwapInt32", func() uint64 {
		if *addr == old {
			*addr = new
			swapped = true
		}
		return uint64(uint32(*addr))
	})
	return
}

func LoadInt64(addr *int64) int64 {
	vrt.AtomicOp(addr, "LoadInt64", func() uint64 { return uint64(*addr) })
	return *addr
}

func StoreInt64(addr *int64, val int64) {
	vrt.AtomicOp(addr, "StoreInt64", func() uint64 { *addr = val; return uint64(val) })
}

func AddInt64(addr *int64, delta int64) (new int64) {
	vrt.AtomicOp(addr, "AddInt64", func() uint64 { *addr += delta; new = *addr; return uint64(*addr) })
	return
}

func CompareAndSwapInt64(addr *int64, old, new int64) (swapped bool) {
	vrt.AtomicOp(addr, "CompareAndSwapInt64", func() uint64 {
		if *addr == old {
			*addr = new
			swapped = true
		}
		return uint64(*addr)
	})
	return
}

func LoadUint32(addr *uint32) uint32 {
	vrt.AtomicOp(addr, "LoadUint32", func() uint64 { return uint64(*addr) })
	return *addr
}

func StoreUint32(addr *uint32, val uint32) {
	vrt.AtomicOp(addr, "StoreUint32", func() uint64 { *addr = val; return uint64(val) })
}

func AddUint32(addr *uint32, delta uint32) (new uint32) {
	vrt.AtomicOp(addr, "AddUint32", func() uint64 { *addr += delta; new = *addr; return uint64(*addr) })
	return
}

func CompareAndSwapUint32(addr *uint32, old, new uint32) (swapped bool) {
	vrt.AtomicOp(addr, "CompareAndSwapUint32", func() uint64 {
		if *addr == old {
			*addr = new
			swapped = true
		}
		return uint64(*addr)
	})
	return
}

// Bool mirrors atomic.Bool.
type Bool struct{ v int32 }

func (b *Bool) Load() bool { return LoadInt32(&b.v) != 0 }
func (b *Bool) Store(x bool) {
	if x {
		StoreInt32(&b.v, 1)
	} else {
		StoreInt32(&b.v, 0)
	}
}
func (b *Bool) CompareAndSwap(old, new bool) bool {
	o, n := int32(0), int32(0)
	if old {
		o = 1
	}
	if new {
		n = 1
	}
	return CompareAndSwapInt32(&b.v, o, n)
}

// Int32 mirrors atomic.Int32.
type Int32 struct{ v int32 }

func (i *Int32) Load() int32                          { return LoadInt32(&i.v) }
func (i *Int32) Store(x int32)                        { StoreInt32(&i.v, x) }
func (i *Int32) Add(d int32) int32                    { return AddInt32(&i.v, d) }
func (i *Int32) CompareAndSwap(old, new int32) bool   { return CompareAndSwapInt32(&i.v, old, new) }

// Int64 mirrors atomic.Int64.
type Int64 struct{ v int64 }

func (i *Int64) Load() int64                        { return LoadInt64(&i.v) }
func (i *Int64) Store(x int64)                      { StoreInt64(&i.v, x) }
func (i *Int64) Add(d int64) int64                  { return AddInt64(&i.v, d) }
func (i *Int64) CompareAndSwap(old, new int64) bool { return CompareAndSwapInt64(&i.v, old, new) }

// ---- the rest of sync/atomic that a change to taskctl may start to use ----

func SwapInt64(addr *int64, n int64) (old int64) {
	vrt.AtomicOp(addr, "SwapInt64", func() uint64 { old = *addr; *addr = n; return uint64(n) })
	return
}

func SwapUint32(addr *uint32, n uint32) (old uint32) {
	vrt.AtomicOp(addr, "SwapUint32", func() uint64 { old = *addr; *addr = n; return uint64(n) })
	return
}

func LoadUint64(addr *uint64) uint64 {
	vrt.AtomicOp(addr, "LoadUint64", func() uint64 { return *addr })
	return *addr
}

func StoreUint64(addr *uint64, val uint64) {
	vrt.AtomicOp(addr, "StoreUint64", func() uint64 { *addr = val; return val })
}

func AddUint64(addr *uint64, delta uint64) (new uint64) {
	vrt.AtomicOp(addr, "AddUint64", func() uint64 { *addr += delta; new = *addr; return *addr })
	return
}

func SwapUint64(addr *uint64, n uint64) (old uint64) {
	vrt.AtomicOp(addr, "SwapUint64", func() uint64 { old = *addr; *addr = n; return n })
	return
}

func CompareAndSwapUint64(addr *uint64, old, new uint64) (swapped bool) {
	vrt.AtomicOp(addr, "CompareAndSwapUint64", func() uint64 {
		if *addr == old {
			*addr = new
			swapped = true
		}
		return *addr
	})
	return
}

// Uint32 / Uint64: the typed counterparts.
type Uint32 struct{ v uint32 }

func (i *Uint32) Load() uint32                        { return LoadUint32(&i.v) }
func (i *Uint32) Store(x uint32)                      { StoreUint32(&i.v, x) }
func (i *Uint32) Add(d uint32) uint32                 { return AddUint32(&i.v, d) }
func (i *Uint32) Swap(x uint32) uint32                { return SwapUint32(&i.v, x) }
func (i *Uint32) CompareAndSwap(old, new uint32) bool { return CompareAndSwapUint32(&i.v, old, new) }

type Uint64 struct{ v uint64 }

func (i *Uint64) Load() uint64                        { return LoadUint64(&i.v) }
func (i *Uint64) Store(x uint64)                      { StoreUint64(&i.v, x) }
func (i *Uint64) Add(d uint64) uint64                 { return AddUint64(&i.v, d) }
func (i *Uint64) Swap(x uint64) uint64                { return SwapUint64(&i.v, x) }
func (i *Uint64) CompareAndSwap(old, new uint64) bool { return CompareAndSwapUint64(&i.v, old, new) }

func (i *Int32) Swap(x int32) int32 { return SwapInt32(&i.v, x) }
func (i *Int64) Swap(x int64) int64 { return SwapInt64(&i.v, x) }
func (b *Bool) Swap(x bool) bool {
	n := int32(0)
	if x {
		n = 1
	}
	return SwapInt32(&b.v, n) != 0
}

// Value mirrors atomic.Value: every operation is one scheduling point; the state value is a counter of
// stores (two stores of equal values are different states, which is merely conservative).
type Value struct {
	v   interface{}
	gen uint64
}

func (v *Value) Load() (x interface{}) {
	vrt.AtomicOp(v, "Value.Load", func() uint64 { x = v.v; return v.gen })
	return
}

func (v *Value) Store(x interface{}) {
	if x == nil {
		panic("sync/atomic: store of nil value into Value")
	}
	vrt.AtomicOp(v, "Value.Store", func() uint64 { v.v = x; v.gen++; return v.gen })
}

func (v *Value) Swap(x interface{}) (old interface{}) {
	if x == nil {
		panic("sync/atomic: swap of nil value into Value")
	}
	vrt.AtomicOp(v, "Value.Swap", func() uint64 { old = v.v; v.v = x; v.gen++; return v.gen })
	return
}

func (v *Value) CompareAndSwap(old, new interface{}) (swapped bool) {
	vrt.AtomicOp(v, "Value.CompareAndSwap", func() uint64 {
		if v.v == old {
			v.v = new
			v.gen++
			swapped = true
		}
		return v.gen
	})
	return
}
