// Package vatomic mirrors the part of sync/atomic that taskctl uses.
package vatomic

import "github.com/taskctl/taskctl/vrt"

func LoadInt32(addr *int32) int32 {
	vrt.AtomicOp(addr, "LoadInt32", func() uint64 { return uint64(uint32(*addr)) })
	return *addr
}

func StoreInt32(addr *int32, val int32) {
	vrt.AtomicOp(addr, "StoreInt32", func() uint64 { *addr = val; return uint64(uint32(val)) })
}

func AddInt32(addr *int32, delta int32) (new int32) {
	vrt.AtomicOp(addr, "AddInt32", func() uint64 { *addr += delta; new = *addr; return uint64(uint32(*addr)) })
	return
}

func SwapInt32(addr *int32, n int32) (old int32) {
	vrt.AtomicOp(addr, "SwapInt32", func() uint64 { old = *addr; *addr = n; return uint64(uint32(n)) })
	return
}

func CompareAndSwapInt32(addr *int32, old, new int32) (swapped bool) {
	vrt.AtomicOp(addr, "CompareAndSwapInt32", func() uint64 {
		if *addr == old {
			*addr = new
			swapped = true
		}
		return uint64(uint32(*addr))
	})
	return
}

func LoadInt64(addr *int64) int64 {
	vrt.AtomicOp(addr, "LoadInt64", func() uint64 { return uint64(*addr) })
	return *addr
}

func StoreInt64(addr *int64, val int64) {
	vrt.AtomicOp(addr, "StoreInt64", func() uint64 { *addr = val; return uint64(val) })
}

func AddInt64(addr *int64, delta int64) (new int64) {
	vrt.AtomicOp(addr, "AddInt64", func() uint64 { *addr += delta; new = *addr; return uint64(*addr) })
	return
}

func CompareAndSwapInt64(addr *int64, old, new int64) (swapped bool) {
	vrt.AtomicOp(addr, "CompareAndSwapInt64", func() uint64 {
		if *addr == old {
			*addr = new
			swapped = true
		}
		return uint64(*addr)
	})
	return
}

func LoadUint32(addr *uint32) uint32 {
	vrt.AtomicOp(addr, "LoadUint32", func() uint64 { return uint64(*addr) })
	return *addr
}

func StoreUint32(addr *uint32, val uint32) {
	vrt.AtomicOp(addr, "StoreUint32", func() uint64 { *addr = val; return uint64(val) })
}

func AddUint32(addr *uint32, delta uint32) (new uint32) {
	vrt.AtomicOp(addr, "AddUint32", func() uint64 { *addr += delta; new = *addr; return uint64(*addr) })
	return
}

func CompareAndSwapUint32(addr *uint32, old, new uint32) (swapped bool) {
	vrt.AtomicOp(addr, "CompareAndSwapUint32", func() uint64 {
		if *addr == old {
			*addr = new
			swapped = true
		}
		return uint64(*addr)
	})
	return
}

// Bool mirrors atomic.Bool.
type Bool struct{ v int32 }

func (b *Bool) Load() bool { return LoadInt32(&b.v) != 0 }
func (b *Bool) Store(x bool) {
	if x {
		StoreInt32(&b.v, 1)
	} else {
		StoreInt32(&b.v, 0)
	}
}
func (b *Bool) CompareAndSwap(old, new bool) bool {
	o, n := int32(0), int32(0)
	if old {
		o = 1
	}
	if new {
		n = 1
	}
	return CompareAndSwapInt32(&b.v, o, n)
}

// Int32 mirrors atomic.Int32.
type Int32 struct{ v int32 }

func (i *Int32) Load() int32                          { return LoadInt32(&i.v) }
func (i *Int32) Store(x int32)                        { StoreInt32(&i.v, x) }
func (i *Int32) Add(d int32) int32                    { return AddInt32(&i.v, d) }
func (i *Int32) CompareAndSwap(old, new int32) bool   { return CompareAndSwapInt32(&i.v, old, new) }

// Int64 mirrors atomic.Int64.
type Int64 struct{ v int64 }

func (i *Int64) Load() int64                        { return LoadInt64(&i.v) }
func (i *Int64) Store(x int64)                      { StoreInt64(&i.v, x) }
func (i *Int64) Add(d int64) int64                  { return AddInt64(&i.v, d) }
func (i *Int64) CompareAndSwap(old, new int64) bool { return CompareAndSwapInt64(&i.v, old, new) }
