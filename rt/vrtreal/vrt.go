// Package vrt (free-running variant): the same API as /verif/rt/vrt implemented with REAL
// concurrency. It is linked in by `bin/raceaudit`, which compiles the harness bodies and the
// UN-instrumented taskctl packages with -race: the cooperative scheduler's hand-offs are
// happens-before edges that would blind the race detector, so unsynchronised accesses are looked
// for in this separate free-running pass (a coverage audit of the probed-field list, not a verdict).
package vrt

import (
	"bytes"
	"fmt"
	"reflect"
	"runtime"
	"sort"
	"strconv"
	"sync"
	"time"
)

type Event struct {
	T    int
	Kind string
	Arg  string
}

func (e Event) String() string { return fmt.Sprintf("T%d:%s(%s)", e.T, e.Kind, e.Arg) }

type PointRec struct{}

const (
	Completed = "completed"
	Deadlock  = "deadlock"
	Livelock  = "livelock"
	Panicked  = "panic"
	Aborted   = "abort"
	Diverged  = "diverged"
	Overrun   = "overrun"
)

type AbortSentinel struct{ Msg string }

type Sched struct {
	OnQuiesc func(parked []string)
	Events   []Event
}

var S *Sched

var mu sync.Mutex
var events []Event

func Go(f func())                      { go f() }
func GoNamed(name string, f func())    { go f() }
func GoExternal(name string, f func()) { go func() { time.Sleep(time.Duration(jitter()) * time.Microsecond); f() }() }
func Point()                           {}
func Sleep(d time.Duration) {
	if d <= 0 {
		d = 200 * time.Microsecond
	}
	if d > 2*time.Millisecond {
		d = 2 * time.Millisecond
	}
	time.Sleep(d)
}

type Loop struct{}

func LoopEnter() *Loop                    { return &Loop{} }
func SleepIn(l *Loop, d time.Duration)    { Sleep(d) }
func Park(label string)                   { time.Sleep(time.Duration(jitter()) * time.Microsecond) }
func Fail(format string, a ...interface{}) {}
func Choose(n int) int                    { return 0 }
func Touch(name string, write bool)       {}
func Enter(name string, args ...string)   {}
func Exit(name string, args ...string)    {}
func Aborting() bool                      { return false }

var seed uint32 = 12345

func jitter() int {
	mu.Lock()
	seed = seed*1664525 + 1013904223
	v := int(seed>>16) % 300
	mu.Unlock()
	return v
}

// Exit: in the free-running variant the harness simply returns.
func ExitProcess() {}

// Debug exists for API parity with the controlled scheduler.
var Debug bool


func Emit(kind, arg string) {
	mu.Lock()
	events = append(events, Event{T: ThreadID(), Kind: kind, Arg: arg})
	mu.Unlock()
}

func ThreadID() int {
	var buf [64]byte
	n := runtime.Stack(buf[:], false)
	f := bytes.Fields(buf[:n])
	if len(f) >= 2 {
		id, _ := strconv.Atoi(string(f[1]))
		return id
	}
	return 0
}

type Entry struct{ K, V reflect.Value }

func Keys(m interface{}) []reflect.Value {
	ks := reflect.ValueOf(m).MapKeys()
	sort.Slice(ks, func(i, j int) bool { return fmt.Sprint(ks[i].Interface()) < fmt.Sprint(ks[j].Interface()) })
	return ks
}

func Entries(m interface{}) []Entry {
	v := reflect.ValueOf(m)
	ks := Keys(m)
	out := make([]Entry, len(ks))
	for i, k := range ks {
		out[i] = Entry{K: k, V: v.MapIndex(k)}
	}
	return out
}

func RecvOK(c interface{}) (interface{}, bool) {
	x, ok := reflect.ValueOf(c).Recv()
	return x.Interface(), ok
}
func Recv(c interface{}) interface{} { v, _ := RecvOK(c); return v }
func Send(c, v interface{})          { reflect.ValueOf(c).Send(reflect.ValueOf(v)) }
func Close(c interface{})            { reflect.ValueOf(c).Close() }

type Execution struct {
	Choices     []int
	Points      []PointRec
	Events      []Event
	Outcome     string
	PanicVal    string
	PanicThr    int
	Stack       string
	Blocked     []string
	Failures    []string
	Transitions int
	QuiescN     int
}

type ExploreConfig struct {
	Bound         int
	QuiescentOnly bool
	Prune         bool
	MaxExecs      int64
	Deadline      time.Time
	Setup         func(s *Sched)
	ShardI, ShardN int
}

type Stats struct {
	Execs       int64
	Transitions int64
	States      int64
	MaxDepth    int
	MaxPoints   int
	Exhaustive  bool
	Outcomes    map[string]int64
	Capped      string
	Pruned      int64
}

// Runs is the number of free-running repetitions per scenario.
var Runs = 8

func Run(prefix []int, setup func(s *Sched), body func()) *Execution {
	mu.Lock()
	events = nil
	mu.Unlock()
	done := make(chan string, 1)
	go func() {
		defer func() {
			if r := recover(); r != nil {
				done <- fmt.Sprint(r)
				return
			}
			done <- ""
		}()
		body()
	}()
	x := &Execution{Outcome: Completed}
	select {
	case p := <-done:
		if p != "" {
			x.Outcome, x.PanicVal = Panicked, p
		}
	case <-time.After(20 * time.Second):
		x.Outcome = Deadlock
	}
	// let stragglers (handlers started by the body) finish
	time.Sleep(3 * time.Millisecond)
	mu.Lock()
	x.Events = append([]Event{}, events...)
	mu.Unlock()
	return x
}

func Replay(choices []int, setup func(s *Sched), body func()) *Execution { return Run(nil, setup, body) }

func Explore(cfg ExploreConfig, body func(), check func(x *Execution) bool) Stats {
	st := Stats{Exhaustive: false, Capped: "free-running race audit", Outcomes: map[string]int64{}}
	for i := 0; i < Runs; i++ {
		x := Run(nil, cfg.Setup, body)
		st.Execs++
		st.Outcomes[x.Outcome]++
	}
	return st
}
