// Package vsync (free-running variant): the real sync types.
package vsync

import "sync"

type (
	Locker    = sync.Locker
	Mutex     = sync.Mutex
	RWMutex   = sync.RWMutex
	WaitGroup = sync.WaitGroup
	Once      = sync.Once
	Map       = sync.Map
)

var LocalMaps = true

type Pool = sync.Pool
type Cond = sync.Cond

func NewCond(l Locker) *Cond { return sync.NewCond(l) }
