// Package vatomic (free-running variant): the real sync/atomic.
package vatomic

import "sync/atomic"

func LoadInt32(addr *int32) int32                          { return atomic.LoadInt32(addr) }
func StoreInt32(addr *int32, val int32)                    { atomic.StoreInt32(addr, val) }
func AddInt32(addr *int32, delta int32) int32              { return atomic.AddInt32(addr, delta) }
func CompareAndSwapInt32(addr *int32, old, new int32) bool { return atomic.CompareAndSwapInt32(addr, old, new) }
