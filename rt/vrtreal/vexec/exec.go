// Package vexec replaces os/exec inside pkg/scheduler: the OS answer for a stage condition is
// decided by the harness for the names "true", "false" and "missing-cmd"; anything else runs.
package vexec

import (
	osexec "os/exec"

	"github.com/taskctl/taskctl/vrt"
)

// ExitError and Error are the genuine os/exec types, so that errors.As in taskctl keeps working.
type ExitError = osexec.ExitError
type Error = osexec.Error

var ErrNotFound = osexec.ErrNotFound

type Cmd struct {
	name string
	real *osexec.Cmd
}

func Command(name string, arg ...string) *Cmd {
	switch name {
	case "true", "false", "missing-cmd":
		return &Cmd{name: name}
	}
	return &Cmd{name: name, real: osexec.Command(name, arg...)}
}

func (c *Cmd) Run() error {
	vrt.Emit("cond", c.name)
	switch c.name {
	case "true":
		return nil
	case "false":
		return &osexec.ExitError{}
	case "missing-cmd":
		return &osexec.Error{Name: c.name, Err: osexec.ErrNotFound}
	}
	return c.real.Run()
}
